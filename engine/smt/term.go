// Package smt: a small structured SMT-LIB2 term language (Bool, Int, String),
// light simplification, printing, concrete evaluation, and a solver process wrapper.
package smt

import (
	"fmt"
	"strconv"
	"strings"
)

type Sort int

const (
	SBool Sort = iota
	SInt
	SString
)

func (s Sort) String() string {
	switch s {
	case SBool:
		return "Bool"
	case SInt:
		return "Int"
	}
	return "String"
}

// Term is an immutable SMT term. Leaf kinds: const (IsConst) and var (Op=="var").
type Term struct {
	Op      string
	Args    []*Term
	Sort    Sort
	IsConst bool
	B       bool
	I       int64
	S       string
	Name    string // for vars
	KnownLen int   // for string vars: length fixed by construction (0 = unknown); used to fold str.len

	size    int    // number of nodes (tree size, capped)
	defName string // name of a define-fun standing for this term (solver session scoped)
	defGen  int
}

var (
	True  = &Term{Sort: SBool, IsConst: true, B: true, size: 1}
	False = &Term{Sort: SBool, IsConst: true, B: false, size: 1}
)

func BoolC(b bool) *Term {
	if b {
		return True
	}
	return False
}
func IntC(i int64) *Term  { return &Term{Sort: SInt, IsConst: true, I: i, size: 1} }
func StrC(s string) *Term { return &Term{Sort: SString, IsConst: true, S: s, size: 1} }
func Var(name string, s Sort) *Term {
	return &Term{Op: "var", Name: name, Sort: s, size: 1}
}

func mk(op string, s Sort, args ...*Term) *Term {
	sz := 1
	for _, a := range args {
		sz += a.size
		if sz > 1<<20 {
			sz = 1 << 20
		}
	}
	return &Term{Op: op, Args: args, Sort: s, size: sz}
}

func (t *Term) IsTrue() bool  { return t.IsConst && t.Sort == SBool && t.B }
func (t *Term) IsFalse() bool { return t.IsConst && t.Sort == SBool && !t.B }

// structural equality (cheap, bounded depth)
func Same(a, b *Term) bool {
	if a == b {
		return true
	}
	if a.Sort != b.Sort || a.IsConst != b.IsConst || a.Op != b.Op || len(a.Args) != len(b.Args) || a.size != b.size {
		return false
	}
	if a.IsConst {
		switch a.Sort {
		case SBool:
			return a.B == b.B
		case SInt:
			return a.I == b.I
		default:
			return a.S == b.S
		}
	}
	if a.Op == "var" {
		return a.Name == b.Name
	}
	if a.size > 64 {
		return false
	}
	for i := range a.Args {
		if !Same(a.Args[i], b.Args[i]) {
			return false
		}
	}
	return true
}

func Not(a *Term) *Term {
	if a.IsConst {
		return BoolC(!a.B)
	}
	if a.Op == "not" {
		return a.Args[0]
	}
	return mk("not", SBool, a)
}

func And(as ...*Term) *Term {
	var out []*Term
	for _, a := range as {
		if a.IsConst {
			if !a.B {
				return False
			}
			continue
		}
		if a.Op == "and" {
			out = append(out, a.Args...)
			continue
		}
		out = append(out, a)
	}
	switch len(out) {
	case 0:
		return True
	case 1:
		return out[0]
	}
	return mk("and", SBool, out...)
}

func Or(as ...*Term) *Term {
	var out []*Term
	for _, a := range as {
		if a.IsConst {
			if a.B {
				return True
			}
			continue
		}
		if a.Op == "or" {
			out = append(out, a.Args...)
			continue
		}
		out = append(out, a)
	}
	switch len(out) {
	case 0:
		return False
	case 1:
		return out[0]
	}
	return mk("or", SBool, out...)
}

func Implies(a, b *Term) *Term { return Or(Not(a), b) }

func Eq(a, b *Term) *Term {
	if a.Sort != b.Sort {
		panic(fmt.Sprintf("smt.Eq: sort mismatch %v %v", a, b))
	}
	if a.IsConst && b.IsConst {
		switch a.Sort {
		case SBool:
			return BoolC(a.B == b.B)
		case SInt:
			return BoolC(a.I == b.I)
		default:
			return BoolC(a.S == b.S)
		}
	}
	if Same(a, b) {
		return True
	}
	if a.Sort == SBool {
		if a.IsConst {
			a, b = b, a
		}
		if b.IsConst {
			if b.B {
				return a
			}
			return Not(a)
		}
	}
	if a.Sort == SString {
		// cheap length-based refutation for constant vs concat of constants prefix
		if la, ok := constLen(a); ok {
			if lb, ok := constLen(b); ok && la != lb {
				return False
			}
		}
	}
	return mk("=", SBool, a, b)
}

// constLen returns the length of a string term if it is syntactically determined.
func constLen(t *Term) (int, bool) {
	if t.IsConst {
		return len(t.S), true
	}
	if t.Op == "var" && t.KnownLen > 0 {
		return t.KnownLen, true
	}
	switch t.Op {
	case "str.++":
		n := 0
		for _, a := range t.Args {
			l, ok := constLen(a)
			if !ok {
				return 0, false
			}
			n += l
		}
		return n, true
	case "str.from_code":
		return 1, true // callers guarantee code in range
	}
	return 0, false
}

func Ite(c, a, b *Term) *Term {
	if c.IsConst {
		if c.B {
			return a
		}
		return b
	}
	if Same(a, b) {
		return a
	}
	if a.Sort == SBool {
		if a.IsConst && b.IsConst {
			if a.B {
				return c
			}
			return Not(c)
		}
		return Or(And(c, a), And(Not(c), b))
	}
	return mk("ite", a.Sort, c, a, b)
}

func Add(a, b *Term) *Term {
	if a.IsConst && b.IsConst {
		return IntC(a.I + b.I)
	}
	if a.IsConst && a.I == 0 {
		return b
	}
	if b.IsConst && b.I == 0 {
		return a
	}
	// (x + c1) + c2
	if b.IsConst && a.Op == "+" && len(a.Args) == 2 && a.Args[1].IsConst {
		return Add(a.Args[0], IntC(a.Args[1].I+b.I))
	}
	return mk("+", SInt, a, b)
}
func Sub(a, b *Term) *Term {
	if b.IsConst {
		return Add(a, IntC(-b.I))
	}
	if Same(a, b) {
		return IntC(0)
	}
	return mk("-", SInt, a, b)
}
func Neg(a *Term) *Term {
	if a.IsConst {
		return IntC(-a.I)
	}
	return mk("-", SInt, a)
}
func Mul(a, b *Term) *Term {
	if a.IsConst && b.IsConst {
		return IntC(a.I * b.I)
	}
	return mk("*", SInt, a, b)
}
func Div(a, b *Term) *Term { return mk("div", SInt, a, b) }
func Mod(a, b *Term) *Term { return mk("mod", SInt, a, b) }

func Lt(a, b *Term) *Term {
	if a.IsConst && b.IsConst {
		return BoolC(a.I < b.I)
	}
	return mk("<", SBool, a, b)
}
func Le(a, b *Term) *Term {
	if a.IsConst && b.IsConst {
		return BoolC(a.I <= b.I)
	}
	return mk("<=", SBool, a, b)
}
func Gt(a, b *Term) *Term { return Lt(b, a) }
func Ge(a, b *Term) *Term { return Le(b, a) }

func Concat(as ...*Term) *Term {
	var out []*Term
	for _, a := range as {
		if a.Op == "str.++" {
			for _, x := range a.Args {
				out = appendStr(out, x)
			}
			continue
		}
		out = appendStr(out, a)
	}
	switch len(out) {
	case 0:
		return StrC("")
	case 1:
		return out[0]
	}
	return mk("str.++", SString, out...)
}

func appendStr(out []*Term, x *Term) []*Term {
	if x.IsConst {
		if x.S == "" {
			return out
		}
		if n := len(out); n > 0 && out[n-1].IsConst {
			out[n-1] = StrC(out[n-1].S + x.S)
			return out
		}
	}
	return append(out, x)
}

func StrLen(a *Term) *Term {
	if l, ok := constLen(a); ok {
		return IntC(int64(l))
	}
	if a.Op == "str.++" {
		var sum *Term = IntC(0)
		for _, x := range a.Args {
			sum = Add(StrLen(x), sum)
		}
		return sum
	}
	return mk("str.len", SInt, a)
}

func StrAt(s, i *Term) *Term {
	if s.IsConst && i.IsConst {
		if i.I >= 0 && int(i.I) < len(s.S) {
			return StrC(s.S[i.I : i.I+1])
		}
		return StrC("")
	}
	return mk("str.at", SString, s, i)
}

// Substr(s, off, len)
func Substr(s, off, n *Term) *Term {
	if s.IsConst && off.IsConst && n.IsConst {
		return StrC(evalSubstr(s.S, off.I, n.I))
	}
	if off.IsConst && off.I == 0 {
		if l := StrLen(s); Same(l, n) {
			return s
		}
	}
	return mk("str.substr", SString, s, off, n)
}

func evalSubstr(s string, off, n int64) string {
	if off < 0 || off >= int64(len(s)) || n <= 0 {
		return ""
	}
	end := off + n
	if end > int64(len(s)) {
		end = int64(len(s))
	}
	return s[off:end]
}

func IndexOf(s, sub, from *Term) *Term {
	if s.IsConst && sub.IsConst && from.IsConst {
		return IntC(evalIndexOf(s.S, sub.S, from.I))
	}
	return mk("str.indexof", SInt, s, sub, from)
}
func evalIndexOf(s, sub string, from int64) int64 {
	if from < 0 || from > int64(len(s)) {
		return -1
	}
	i := strings.Index(s[from:], sub)
	if i < 0 {
		return -1
	}
	return int64(i) + from
}
func PrefixOf(p, s *Term) *Term {
	if p.IsConst && s.IsConst {
		return BoolC(strings.HasPrefix(s.S, p.S))
	}
	if p.IsConst && p.S == "" {
		return True
	}
	return mk("str.prefixof", SBool, p, s)
}
func SuffixOf(p, s *Term) *Term {
	if p.IsConst && s.IsConst {
		return BoolC(strings.HasSuffix(s.S, p.S))
	}
	if p.IsConst && p.S == "" {
		return True
	}
	return mk("str.suffixof", SBool, p, s)
}
func Contains(s, sub *Term) *Term {
	if sub.IsConst && s.IsConst {
		return BoolC(strings.Contains(s.S, sub.S))
	}
	if sub.IsConst && sub.S == "" {
		return True
	}
	return mk("str.contains", SBool, s, sub)
}
func StrLt(a, b *Term) *Term {
	if a.IsConst && b.IsConst {
		return BoolC(a.S < b.S)
	}
	return mk("str.<", SBool, a, b)
}
func StrLe(a, b *Term) *Term {
	if a.IsConst && b.IsConst {
		return BoolC(a.S <= b.S)
	}
	return mk("str.<=", SBool, a, b)
}
func FromCode(c *Term) *Term {
	if c.IsConst {
		if c.I >= 0 && c.I < 256 {
			return StrC(string([]byte{byte(c.I)}))
		}
	}
	if c.Op == "str.to_code" && c.Args[0].Op == "str.at" {
		// from_code(to_code(at(s,i))) == at(s,i) when in range (callers guarantee)
		return c.Args[0]
	}
	return mk("str.from_code", SString, c)
}
func ToCode(s *Term) *Term {
	if s.IsConst {
		if len(s.S) == 1 {
			return IntC(int64(s.S[0]))
		}
		return IntC(-1)
	}
	if s.Op == "str.from_code" {
		return s.Args[0]
	}
	return mk("str.to_code", SInt, s)
}
func FromInt(i *Term) *Term {
	if i.IsConst {
		if i.I < 0 {
			return StrC("")
		}
		return StrC(strconv.FormatInt(i.I, 10))
	}
	return mk("str.from_int", SString, i)
}
func ToInt(s *Term) *Term {
	if s.IsConst {
		return IntC(evalToInt(s.S))
	}
	return mk("str.to_int", SInt, s)
}
func evalToInt(s string) int64 {
	if s == "" {
		return -1
	}
	var n int64
	for i := 0; i < len(s); i++ {
		if s[i] < '0' || s[i] > '9' {
			return -1
		}
		n = n*10 + int64(s[i]-'0')
	}
	return n
}
func Replace(s, from, to *Term) *Term {
	if s.IsConst && from.IsConst && to.IsConst {
		return StrC(strings.Replace(s.S, from.S, to.S, 1))
	}
	return mk("str.replace", SString, s, from, to)
}
func ReplaceAll(s, from, to *Term) *Term {
	if s.IsConst && from.IsConst && to.IsConst && from.S != "" {
		return StrC(strings.ReplaceAll(s.S, from.S, to.S))
	}
	return mk("str.replace_all", SString, s, from, to)
}

// App is an uninterpreted function application.
func App(fn string, s Sort, args ...*Term) *Term { return mk("uf:"+fn, s, args...) }

// ---------------------------------------------------------------------------------
// printing

func quoteStr(s string) string {
	var b strings.Builder
	b.WriteByte('"')
	for i := 0; i < len(s); i++ {
		c := s[i]
		switch {
		case c == '"':
			b.WriteString(`""`)
		case c == '\\' || c < 0x20 || c > 0x7e:
			fmt.Fprintf(&b, `\u{%x}`, c)
		default:
			b.WriteByte(c)
		}
	}
	b.WriteByte('"')
	return b.String()
}

func (t *Term) String() string {
	var b strings.Builder
	t.write(&b, nil)
	return b.String()
}

// write prints t; if names != nil, subterms that have a valid definition name in the
// session are printed by name.
func (t *Term) write(b *strings.Builder, ses *Solver) {
	if ses != nil && t.defName != "" && t.defGen == ses.gen {
		b.WriteString(t.defName)
		return
	}
	t.writeBody(b, ses)
}

func (t *Term) writeBody(b *strings.Builder, ses *Solver) {
	if t.IsConst {
		switch t.Sort {
		case SBool:
			if t.B {
				b.WriteString("true")
			} else {
				b.WriteString("false")
			}
		case SInt:
			if t.I == -1<<63 {
				b.WriteString("(- 9223372036854775808)")
			} else if t.I < 0 {
				fmt.Fprintf(b, "(- %d)", -t.I)
			} else {
				fmt.Fprintf(b, "%d", t.I)
			}
		default:
			b.WriteString(quoteStr(t.S))
		}
		return
	}
	if t.Op == "var" {
		b.WriteString(t.Name)
		return
	}
	op := t.Op
	if strings.HasPrefix(op, "uf:") {
		op = op[3:]
	}
	b.WriteByte('(')
	b.WriteString(op)
	for _, a := range t.Args {
		b.WriteByte(' ')
		a.write(b, ses)
	}
	b.WriteByte(')')
}

// Vars collects the free variables of t into m.
func (t *Term) Vars(m map[string]Sort) {
	seen := map[*Term]bool{}
	var rec func(t *Term)
	rec = func(t *Term) {
		if seen[t] {
			return
		}
		seen[t] = true
		if t.Op == "var" {
			m[t.Name] = t.Sort
		}
		for _, a := range t.Args {
			rec(a)
		}
	}
	rec(t)
}

// ---------------------------------------------------------------------------------
// evaluation under a model

type Model map[string]*Term // var name -> const term

// Eval evaluates t under m. ok=false if some variable/UF is not determined.
func Eval(t *Term, m Model) (*Term, bool) {
	cache := map[*Term]*Term{}
	var ev func(t *Term) *Term
	ev = func(t *Term) *Term {
		if t.IsConst {
			return t
		}
		if r, ok := cache[t]; ok {
			return r
		}
		var r *Term
		if t.Op == "var" {
			r = m[t.Name]
			cache[t] = r
			return r
		}
		if strings.HasPrefix(t.Op, "uf:") {
			cache[t] = nil
			return nil
		}
		// short-circuit ops
		switch t.Op {
		case "and":
			allKnown := true
			for _, a := range t.Args {
				v := ev(a)
				if v == nil {
					allKnown = false
				} else if !v.B {
					cache[t] = False
					return False
				}
			}
			if allKnown {
				r = True
			}
			cache[t] = r
			return r
		case "or":
			allKnown := true
			for _, a := range t.Args {
				v := ev(a)
				if v == nil {
					allKnown = false
				} else if v.B {
					cache[t] = True
					return True
				}
			}
			if allKnown {
				r = False
			}
			cache[t] = r
			return r
		case "ite":
			c := ev(t.Args[0])
			if c == nil {
				cache[t] = nil
				return nil
			}
			if c.B {
				r = ev(t.Args[1])
			} else {
				r = ev(t.Args[2])
			}
			cache[t] = r
			return r
		}
		args := make([]*Term, len(t.Args))
		for i, a := range t.Args {
			args[i] = ev(a)
			if args[i] == nil {
				cache[t] = nil
				return nil
			}
		}
		r = applyConst(t.Op, t.Sort, args)
		cache[t] = r
		return r
	}
	r := ev(t)
	return r, r != nil
}

func applyConst(op string, sort Sort, a []*Term) *Term {
	switch op {
	case "not":
		return BoolC(!a[0].B)
	case "=":
		return Eq(a[0], a[1])
	case "+":
		s := int64(0)
		for _, x := range a {
			s += x.I
		}
		return IntC(s)
	case "-":
		if len(a) == 1 {
			return IntC(-a[0].I)
		}
		return IntC(a[0].I - a[1].I)
	case "*":
		return IntC(a[0].I * a[1].I)
	case "div":
		if a[1].I == 0 {
			return nil
		}
		q := a[0].I / a[1].I
		if a[0].I%a[1].I < 0 { // SMT div is floor for positive divisor / euclidean
			if a[1].I > 0 {
				q--
			} else {
				q++
			}
		}
		return IntC(q)
	case "mod":
		if a[1].I == 0 {
			return nil
		}
		r := a[0].I % a[1].I
		if r < 0 {
			if a[1].I > 0 {
				r += a[1].I
			} else {
				r -= a[1].I
			}
		}
		return IntC(r)
	case "<":
		return BoolC(a[0].I < a[1].I)
	case "<=":
		return BoolC(a[0].I <= a[1].I)
	case "str.++":
		var sb strings.Builder
		for _, x := range a {
			sb.WriteString(x.S)
		}
		return StrC(sb.String())
	case "str.len":
		return IntC(int64(len(a[0].S)))
	case "str.at":
		return StrC(evalSubstr(a[0].S, a[1].I, 1))
	case "str.substr":
		return StrC(evalSubstr(a[0].S, a[1].I, a[2].I))
	case "str.indexof":
		return IntC(evalIndexOf(a[0].S, a[1].S, a[2].I))
	case "str.prefixof":
		return BoolC(strings.HasPrefix(a[1].S, a[0].S))
	case "str.suffixof":
		return BoolC(strings.HasSuffix(a[1].S, a[0].S))
	case "str.contains":
		return BoolC(strings.Contains(a[0].S, a[1].S))
	case "str.<":
		return BoolC(a[0].S < a[1].S)
	case "str.<=":
		return BoolC(a[0].S <= a[1].S)
	case "str.from_code":
		if a[0].I >= 0 && a[0].I < 256 {
			return StrC(string([]byte{byte(a[0].I)}))
		}
		return StrC("")
	case "str.to_code":
		if len(a[0].S) == 1 {
			return IntC(int64(a[0].S[0]))
		}
		return IntC(-1)
	case "str.from_int":
		if a[0].I < 0 {
			return StrC("")
		}
		return StrC(strconv.FormatInt(a[0].I, 10))
	case "str.to_int":
		return IntC(evalToInt(a[0].S))
	case "str.replace":
		return StrC(strings.Replace(a[0].S, a[1].S, a[2].S, 1))
	case "str.replace_all":
		if a[1].S == "" {
			return a[0]
		}
		return StrC(strings.ReplaceAll(a[0].S, a[1].S, a[2].S))
	}
	return nil
}
