package smt

import (
	"bufio"
	"fmt"
	"io"
	"os"
	"os/exec"
	"strconv"
	"strings"
	"time"
)

// Raw makes a leaf holding literal SMT-LIB text (e.g. a regular expression).
func Raw(text string, s Sort) *Term { return &Term{Op: "var", Name: text, Sort: s, size: 1} }

// InRe: (str.in_re s re) with re given as SMT-LIB text.
func InRe(s *Term, re string) *Term { return mk("str.in_re", SBool, s, Raw(re, SString)) }

type Result int

const (
	Unsat Result = iota
	Sat
	Unknown
)

func (r Result) String() string { return [...]string{"unsat", "sat", "unknown"}[r] }

type Stats struct {
	Queries  int
	Sat      int
	Unsat    int
	Unknown  int
	Errors   int
	Time     time.Duration
	MaxQuery time.Duration
}

func (s *Stats) Add(o *Stats) {
	s.Queries += o.Queries
	s.Sat += o.Sat
	s.Unsat += o.Unsat
	s.Unknown += o.Unknown
	s.Errors += o.Errors
	s.Time += o.Time
	if o.MaxQuery > s.MaxQuery {
		s.MaxQuery = o.MaxQuery
	}
}

// Solver wraps one long-running solver process speaking SMT-LIB2 on stdin/stdout.
type Solver struct {
	Cmd     []string
	cmd     *exec.Cmd
	in      io.WriteCloser
	out     *bufio.Reader
	gen     int // generation: bumped at every Reset; definitions are valid within one gen
	nameCtr int
	depth   int
	inQuery bool
	Stats   Stats
	Log     io.Writer
	decls   map[string]bool
	Dead    bool
	// threshold above which subterms are given names
	NameThreshold int
	preamble      []string
	lines         chan string
	// QueryTimeout: hard wall-clock limit per response line; the process is killed when exceeded
	QueryTimeout time.Duration
	Timeouts     int
}

func NewSolver(cmdline ...string) (*Solver, error) {
	s := &Solver{Cmd: cmdline, NameThreshold: 24}
	if err := s.start(); err != nil {
		return nil, err
	}
	return s, nil
}

func (s *Solver) start() error {
	s.cmd = exec.Command(s.Cmd[0], s.Cmd[1:]...)
	in, err := s.cmd.StdinPipe()
	if err != nil {
		return err
	}
	out, err := s.cmd.StdoutPipe()
	if err != nil {
		return err
	}
	s.cmd.Stderr = os.Stderr
	if err := s.cmd.Start(); err != nil {
		return err
	}
	s.in = in
	s.out = bufio.NewReaderSize(out, 1<<16)
	lines := make(chan string, 64)
	s.lines = lines
	rd := s.out
	go func() {
		for {
			line, err := rd.ReadString('\n')
			if err != nil {
				close(lines)
				return
			}
			lines <- line
		}
	}()
	s.Dead = false
	s.gen++
	s.depth = 0
	s.decls = map[string]bool{}
	s.send("(set-option :produce-models true)")
	for _, p := range s.preamble {
		s.send(p)
	}
	return nil
}

// Preamble lines are re-sent after every Reset.
func (s *Solver) SetPreamble(lines ...string) {
	s.preamble = lines
	for _, p := range lines {
		s.send(p)
	}
}

func (s *Solver) Close() {
	if s.cmd != nil && s.cmd.Process != nil {
		s.in.Close()
		s.cmd.Process.Kill()
		s.cmd.Wait()
	}
}

func (s *Solver) send(line string) {
	if s.Log != nil {
		fmt.Fprintln(s.Log, line)
	}
	if _, err := io.WriteString(s.in, line+"\n"); err != nil {
		s.Dead = true
	}
}

// Reset clears all assertions, declarations and definitions.
func (s *Solver) Reset() {
	if s.Dead {
		s.Close()
		if err := s.start(); err != nil {
			panic(err)
		}
		return
	}
	s.send("(reset)")
	s.send("(set-option :produce-models true)")
	for _, p := range s.preamble {
		s.send(p)
	}
	s.gen++
	s.depth = 0
	s.inQuery = false
	s.decls = map[string]bool{}
}

func (s *Solver) Declare(name string, sort Sort) {
	if s.decls[name] {
		return
	}
	s.decls[name] = true
	s.send(fmt.Sprintf("(declare-const %s %s)", name, sort))
}

func (s *Solver) DeclareFun(name string, args []Sort, ret Sort) {
	if s.decls[name] {
		return
	}
	s.decls[name] = true
	var as []string
	for _, a := range args {
		as = append(as, a.String())
	}
	s.send(fmt.Sprintf("(declare-fun %s (%s) %s)", name, strings.Join(as, " "), ret))
}

// define names for large subterms so that printed assertions stay DAG sized.
// Must be called at depth 0 (outside any Push) so that names survive query pops.
func (s *Solver) nameSubterms(t *Term) {
	if t.size < s.NameThreshold || t.IsConst || t.Op == "var" {
		return
	}
	if t.defName != "" && t.defGen == s.gen {
		return
	}
	for _, a := range t.Args {
		s.nameSubterms(a)
	}
	s.nameCtr++
	name := fmt.Sprintf("t!%d", s.nameCtr)
	var b strings.Builder
	fmt.Fprintf(&b, "(define-fun %s () %s ", name, t.Sort)
	t.writeBody(&b, s)
	b.WriteByte(')')
	s.send(b.String())
	t.defName, t.defGen = name, s.gen
}

func (s *Solver) print(t *Term) string {
	var b strings.Builder
	t.write(&b, s)
	return b.String()
}

// Assert adds t permanently (until Reset) — must be called outside Push/Pop pairs
// used for queries.
func (s *Solver) Assert(t *Term) {
	if !s.inQuery {
		s.nameSubterms(t)
	}
	s.send("(assert " + s.print(t) + ")")
}

func (s *Solver) Push() { s.depth++; s.send("(push 1)") }
func (s *Solver) Pop()  { s.depth--; s.send("(pop 1)") }

func (s *Solver) rawLine() (string, error) {
	to := s.QueryTimeout
	if to == 0 {
		to = 40 * time.Second
	}
	select {
	case line, ok := <-s.lines:
		if !ok {
			s.Dead = true
			return "", io.EOF
		}
		return line, nil
	case <-time.After(to):
		// the solver ignored its soft timeout: kill it; the next Reset starts a new process
		s.Timeouts++
		s.Dead = true
		if s.cmd != nil && s.cmd.Process != nil {
			s.cmd.Process.Kill()
		}
		return "", fmt.Errorf("solver watchdog timeout")
	}
}

func (s *Solver) readLine() (string, error) {
	line, err := s.rawLine()
	if err != nil {
		return "", err
	}
	return strings.TrimSpace(line), nil
}

// Check runs (check-sat) under the extra assumption extra (may be nil).
func (s *Solver) Check(extra *Term) Result {
	start := time.Now()
	if extra != nil {
		if !s.inQuery {
			s.nameSubterms(extra)
		}
		s.Push()
		s.inQuery = true
		s.send("(assert " + s.print(extra) + ")")
	}
	s.send("(check-sat)")
	res := Unknown
	for {
		line, err := s.readLine()
		if err != nil {
			s.Stats.Errors++
			break
		}
		if line == "" {
			continue
		}
		if line == "sat" {
			res = Sat
			break
		}
		if line == "unsat" {
			res = Unsat
			break
		}
		if line == "unknown" || line == "timeout" {
			res = Unknown
			break
		}
		if strings.HasPrefix(line, "(error") {
			s.Stats.Errors++
			if s.Log != nil {
				fmt.Fprintln(s.Log, "; SOLVER ERROR:", line)
			}
			fmt.Fprintln(os.Stderr, "solver error:", line)
			// keep reading until the check-sat answer shows up
			continue
		}
		// unexpected output
		fmt.Fprintln(os.Stderr, "solver: unexpected output:", line)
	}
	d := time.Since(start)
	s.Stats.Queries++
	s.Stats.Time += d
	if d > s.Stats.MaxQuery {
		s.Stats.MaxQuery = d
	}
	switch res {
	case Sat:
		s.Stats.Sat++
	case Unsat:
		s.Stats.Unsat++
	default:
		s.Stats.Unknown++
	}
	if extra != nil && res != Sat {
		s.Pop()
		s.inQuery = false
	}
	// if Sat and extra != nil the caller may call GetModel and must then call PopQuery.
	return res
}

// PopQuery must be called after a Sat Check(extra!=nil) once the model has been read.
func (s *Solver) PopQuery() { s.Pop(); s.inQuery = false }

// GetValue evaluates t in the current model (after a Sat answer).
func (s *Solver) GetValue(t *Term) (*Term, error) {
	s.send("(get-value (" + s.print(t) + "))")
	text, err := s.readSexpText()
	if err != nil {
		return nil, err
	}
	if strings.HasPrefix(strings.TrimSpace(text), "(error") {
		s.Stats.Errors++
		return nil, fmt.Errorf("get-value: %s", text)
	}
	sx, _, err := parseSexp(text, 0)
	if err != nil {
		return nil, err
	}
	if len(sx.list) != 1 || len(sx.list[0].list) != 2 {
		return nil, fmt.Errorf("get-value: unexpected %s", text)
	}
	return sexpToConst(sx.list[0].list[1], t.Sort)
}

func (s *Solver) readSexpText() (string, error) {
	var sb strings.Builder
	depth := 0
	started := false
	inStr := false
	for {
		line, err := s.rawLine()
		if err != nil {
			return "", err
		}
		for i := 0; i < len(line); i++ {
			c := line[i]
			if inStr {
				if c == '"' {
					inStr = false
				}
				continue
			}
			switch c {
			case '"':
				inStr = true
			case '(':
				depth++
				started = true
			case ')':
				depth--
			}
		}
		sb.WriteString(line)
		if started && depth <= 0 && !inStr {
			break
		}
	}
	return sb.String(), nil
}

// GetModel reads values for the given variables after a Sat answer.
func (s *Solver) GetModel(vars map[string]Sort) (Model, error) {
	m := Model{}
	if len(vars) == 0 {
		return m, nil
	}
	var names []string
	for n := range vars {
		names = append(names, n)
	}
	s.send("(get-value (" + strings.Join(names, " ") + "))")
	text, err := s.readSexpText()
	if err != nil {
		return nil, err
	}
	if strings.HasPrefix(strings.TrimSpace(text), "(error") {
		s.Stats.Errors++
		return nil, fmt.Errorf("get-value: %s", text)
	}
	sx, _, err := parseSexp(text, 0)
	if err != nil {
		return nil, err
	}
	for _, pair := range sx.list {
		if len(pair.list) != 2 {
			continue
		}
		name := pair.list[0].atom
		sort, ok := vars[name]
		if !ok {
			continue
		}
		v, err := sexpToConst(pair.list[1], sort)
		if err != nil {
			return nil, fmt.Errorf("model value for %s: %v", name, err)
		}
		m[name] = v
	}
	return m, nil
}

type sexp struct {
	atom  string
	isStr bool
	list  []*sexp
	isLst bool
}

func parseSexp(s string, i int) (*sexp, int, error) {
	for i < len(s) && (s[i] == ' ' || s[i] == '\n' || s[i] == '\t' || s[i] == '\r') {
		i++
	}
	if i >= len(s) {
		return nil, i, fmt.Errorf("eof")
	}
	if s[i] == '(' {
		i++
		x := &sexp{isLst: true}
		for {
			for i < len(s) && (s[i] == ' ' || s[i] == '\n' || s[i] == '\t' || s[i] == '\r') {
				i++
			}
			if i >= len(s) {
				return nil, i, fmt.Errorf("eof in list")
			}
			if s[i] == ')' {
				return x, i + 1, nil
			}
			c, j, err := parseSexp(s, i)
			if err != nil {
				return nil, j, err
			}
			x.list = append(x.list, c)
			i = j
		}
	}
	if s[i] == '"' {
		var b strings.Builder
		i++
		for i < len(s) {
			if s[i] == '"' {
				if i+1 < len(s) && s[i+1] == '"' {
					b.WriteByte('"')
					i += 2
					continue
				}
				i++
				break
			}
			b.WriteByte(s[i])
			i++
		}
		return &sexp{atom: b.String(), isStr: true}, i, nil
	}
	j := i
	for j < len(s) && !strings.ContainsRune(" \n\t\r()", rune(s[j])) {
		j++
	}
	return &sexp{atom: s[i:j]}, j, nil
}

func unescapeSMT(s string) string {
	// handles \u{X..} and \uXXXX escapes
	var b strings.Builder
	for i := 0; i < len(s); i++ {
		if s[i] == '\\' && i+1 < len(s) && s[i+1] == 'u' {
			if i+2 < len(s) && s[i+2] == '{' {
				j := strings.IndexByte(s[i+3:], '}')
				if j >= 0 {
					if v, err := strconv.ParseUint(s[i+3:i+3+j], 16, 32); err == nil {
						if v < 256 {
							b.WriteByte(byte(v))
						} else {
							b.WriteRune(rune(v))
						}
						i = i + 3 + j
						continue
					}
				}
			} else if i+6 <= len(s) {
				if v, err := strconv.ParseUint(s[i+2:i+6], 16, 32); err == nil {
					if v < 256 {
						b.WriteByte(byte(v))
					} else {
						b.WriteRune(rune(v))
					}
					i += 5
					continue
				}
			}
		}
		// z3 4.8 prints \x.. escapes
		if s[i] == '\\' && i+3 < len(s) && s[i+1] == 'x' {
			if v, err := strconv.ParseUint(s[i+2:i+4], 16, 8); err == nil {
				b.WriteByte(byte(v))
				i += 3
				continue
			}
		}
		b.WriteByte(s[i])
	}
	return b.String()
}

func sexpToConst(x *sexp, sort Sort) (*Term, error) {
	switch sort {
	case SBool:
		if x.atom == "true" {
			return True, nil
		}
		if x.atom == "false" {
			return False, nil
		}
	case SInt:
		if !x.isLst {
			v, err := strconv.ParseInt(x.atom, 10, 64)
			if err == nil {
				return IntC(v), nil
			}
		} else if len(x.list) == 2 && x.list[0].atom == "-" {
			v, err := strconv.ParseInt(x.list[1].atom, 10, 64)
			if err == nil {
				return IntC(-v), nil
			}
		}
	case SString:
		if x.isStr {
			return StrC(unescapeSMT(x.atom)), nil
		}
	}
	return nil, fmt.Errorf("cannot parse %+v as %v", x, sort)
}
