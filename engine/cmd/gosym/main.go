// gosym: symbolic executor for Go SSA with an SMT back end (see /verif/DESIGN.md §2).
package main

import (
	"encoding/json"
	"flag"
	"fmt"
	"go/types"
	"os"
	"path/filepath"
	"regexp"
	"sort"
	"strings"
	"sync"
	"time"

	"golang.org/x/tools/go/packages"
	"golang.org/x/tools/go/ssa"
	"golang.org/x/tools/go/ssa/ssautil"

	"gosym/interp"
)

type EntryResult struct {
	Entry       string                        `json:"entry"`
	Paths       int                           `json:"paths"`
	Forks       int                           `json:"forks"`
	Ends        map[string]int                `json:"ends"`
	Asserts     map[string]*interp.AssertStat `json:"asserts"`
	Reached     map[string]int                `json:"reached"`
	Violations  []*interp.Violation           `json:"violations"`
	Unsupported map[string]int                `json:"unsupported"`
	UnknownBr   int                           `json:"unknown_branches"`
	Complete    bool                          `json:"complete"`
	StopReason  string                        `json:"stop_reason,omitempty"`
	Queries     int                           `json:"solver_queries"`
	Sat         int                           `json:"solver_sat"`
	Unsat       int                           `json:"solver_unsat"`
	Unknown     int                           `json:"solver_unknown"`
	SolverErrs  int                           `json:"solver_errors"`
	SolverSec   float64                       `json:"solver_seconds"`
	MaxQuerySec float64                       `json:"max_query_seconds"`
	WallSec     float64                       `json:"wall_seconds"`
	Steps       int64                         `json:"ssa_instructions"`
	Samples     []map[string]any              `json:"samples"`
	Intercepts  map[string]int                `json:"intercepts"`
	Functions   []string                      `json:"functions_encoded,omitempty"`
	Transcript  []string                      `json:"transcript,omitempty"`
}

type Output struct {
	Repo     string         `json:"repo"`
	Packages []string       `json:"packages"`
	LoadSec  float64        `json:"load_seconds"`
	Entries  []*EntryResult `json:"entries"`
	Solver   []string       `json:"solver"`
}

type multiFlag []string

func (m *multiFlag) String() string     { return strings.Join(*m, ",") }
func (m *multiFlag) Set(s string) error { *m = append(*m, s); return nil }

func main() {
	var (
		repo       = flag.String("repo", "/repo", "repository root")
		verifDir   = flag.String("verif", "/verif", "verif root (harness/, support/)")
		entryRe    = flag.String("entry", "", "regexp of harness entry function names")
		out        = flag.String("out", "", "output json")
		workers    = flag.Int("workers", 8, "parallel workers")
		maxPaths   = flag.Int("max-paths", 200000, "path budget per entry")
		maxSteps   = flag.Int("max-steps", 2000000, "SSA instruction budget per path")
		budget     = flag.Duration("time", 10*time.Minute, "time budget per entry")
		solver     = flag.String("solver", "z3-new -in -t:20000", "solver command")
		verbose    = flag.Bool("v", false, "verbose")
		trace      = flag.Bool("trace", false, "trace instructions")
		sched      = flag.Bool("sched", false, "explore goroutine schedules")
		preempt    = flag.Int("preempt", 2, "preemption bound")
		maxViol    = flag.Int("max-violations", 3, "violations kept per assertion id")
		replayFile = flag.String("replay", "", "replay a violation json (decision vector) instead of exploring")
		solverLog  = flag.String("solver-log", "", "write solver dialogue of worker 0 to file")
		tierEnv    = flag.String("tier", "quick", "tier passed to harnesses via sym.Tier()")
		support    = flag.String("support", "sym,fsm", "comma separated support packages to load")
	)
	var pkgs multiFlag
	flag.Var(&pkgs, "pkg", "package (relative to repo, e.g. internal/label); repeatable")
	flag.Parse()
	if len(pkgs) == 0 || *entryRe == "" {
		fmt.Fprintln(os.Stderr, "usage: gosym -pkg internal/label -entry 'VerifC17_.*' [-out f.json]")
		os.Exit(2)
	}
	interp.Tier = *tierEnv

	t0 := time.Now()
	overlay := map[string][]byte{}
	var patterns []string
	addDir := func(srcDir, dstDir string) {
		ents, err := os.ReadDir(srcDir)
		if err != nil {
			return
		}
		for _, e := range ents {
			if e.IsDir() || !strings.HasSuffix(e.Name(), ".go") || strings.HasSuffix(e.Name(), "_test.go") {
				continue
			}
			b, err := os.ReadFile(filepath.Join(srcDir, e.Name()))
			if err != nil {
				fatal(err)
			}
			overlay[filepath.Join(dstDir, "zz_verif_"+e.Name())] = b
		}
	}
	for _, p := range pkgs {
		addDir(filepath.Join(*verifDir, "harness", p), filepath.Join(*repo, p))
		patterns = append(patterns, "./"+p)
	}
	// support packages
	supRoot := filepath.Join(*verifDir, "support")
	sups, _ := os.ReadDir(supRoot)
	for _, s := range sups {
		if s.IsDir() && strings.Contains(","+*support+",", ","+s.Name()+",") {
			addDir(filepath.Join(supRoot, s.Name()), filepath.Join(*repo, "internal", "zzverif", s.Name()))
			patterns = append(patterns, "./internal/zzverif/"+s.Name())
		}
	}
	os.Setenv("PATH", "/opt/veriftools/go1.26.8/bin:"+os.Getenv("PATH"))
	env := append(os.Environ(), "GOFLAGS=-mod=readonly", "GOPROXY=off", "GOTOOLCHAIN=local")
	cfg := &packages.Config{
		Mode:       packages.LoadAllSyntax,
		Dir:        *repo,
		Env:        env,
		Overlay:    overlay,
		BuildFlags: []string{"-tags=verif"},
	}
	initial, err := packages.Load(cfg, patterns...)
	if err != nil {
		fatal(err)
	}
	if packages.PrintErrors(initial) > 0 {
		fatal(fmt.Errorf("package load errors"))
	}
	prog, ssaPkgs := ssautil.AllPackages(initial, ssa.InstantiateGenerics)
	prog.Build()
	loadSec := time.Since(t0).Seconds()
	if *verbose {
		fmt.Fprintf(os.Stderr, "gosym: loaded %d packages (%d initial) in %.1fs\n", len(prog.AllPackages()), len(initial), loadSec)
	}

	re := regexp.MustCompile("^(" + *entryRe + ")$")
	type entry struct {
		name string
		fn   *ssa.Function
	}
	var entries []entry
	var roots []*ssa.Package
	for _, sp := range ssaPkgs {
		if sp == nil {
			continue
		}
		roots = append(roots, sp)
		for name, m := range sp.Members {
			if fn, ok := m.(*ssa.Function); ok && re.MatchString(name) && fn.Signature.Params().Len() == 0 {
				entries = append(entries, entry{sp.Pkg.Path() + "." + name, fn})
			}
		}
	}
	sort.Slice(entries, func(i, j int) bool { return entries[i].name < entries[j].name })
	if len(entries) == 0 {
		fatal(fmt.Errorf("no entry matches %q", *entryRe))
	}

	sizes := types.SizesFor("gc", "amd64")
	solverCmd := strings.Fields(*solver)
	nw := *workers
	var ws []*interp.Worker
	var wmu sync.Mutex
	var wg sync.WaitGroup
	for k := 0; k < nw; k++ {
		wg.Add(1)
		go func(k int) {
			defer wg.Done()
			in := interp.NewInterpreter(prog, sizes, roots, *verbose && k == 0)
			in.Trace = *trace
			w, err := interp.NewWorker(k, in, solverCmd)
			if err != nil {
				fatal(err)
			}
			wmu.Lock()
			ws = append(ws, w)
			wmu.Unlock()
		}(k)
	}
	wg.Wait()
	if *solverLog != "" {
		f, err := os.Create(*solverLog)
		if err == nil {
			ws[0].SetSolverLog(f)
			defer f.Close()
		}
	}

	output := &Output{Repo: *repo, Packages: pkgs, LoadSec: loadSec, Solver: solverCmd}
	// the time budget covers the whole invocation, not each entry: entries reached after it is used
	// up are explored for a token second and reported incomplete
	globalDeadline := time.Now().Add(*budget)
	for _, e := range entries {
		remaining := *budget
		if *budget > 0 {
			remaining = time.Until(globalDeadline)
			if remaining < time.Second {
				remaining = time.Second
			}
		}
		opts := interp.Options{SolverCmd: solverCmd, Workers: nw, MaxPaths: *maxPaths, MaxSteps: *maxSteps,
			TimeBudget: remaining, MaxViolations: *maxViol, Verbose: *verbose, ExploreSched: *sched, Preemptions: *preempt}
		var seed []interp.Decision
		if *replayFile != "" {
			b, err := os.ReadFile(*replayFile)
			if err != nil {
				fatal(err)
			}
			var v interp.Violation
			if err := json.Unmarshal(b, &v); err != nil {
				fatal(err)
			}
			if v.Entry != e.name {
				continue
			}
			seed = v.Trace
			opts.Workers = 1
		}
		ex := interp.NewExplorer(e.name, opts)
		if seed != nil {
			ex.SeedOnly(seed)
		}
		start := time.Now()
		var wg sync.WaitGroup
		for k := 0; k < opts.Workers; k++ {
			wg.Add(1)
			go func(w *interp.Worker) {
				defer wg.Done()
				ex.RunWorker(w, func(w *interp.Worker) { w.CallEntry(e.fn) })
			}(ws[k])
		}
		wg.Wait()
		res := &EntryResult{Entry: e.name, Paths: ex.Paths, Forks: ex.Forks, Ends: ex.Ends, Asserts: ex.Asserts,
			Reached: ex.Reached, Violations: ex.Violations, Unsupported: ex.Unsupported, UnknownBr: ex.UnknownBr,
			Complete: ex.Complete(), StopReason: ex.StopReason(), Queries: ex.Solver.Queries, Sat: ex.Solver.Sat,
			Unsat: ex.Solver.Unsat, Unknown: ex.Solver.Unknown, SolverErrs: ex.Solver.Errors,
			SolverSec: ex.Solver.Time.Seconds(), MaxQuerySec: ex.Solver.MaxQuery.Seconds(),
			WallSec: time.Since(start).Seconds(), Steps: ex.Steps, Samples: ex.Samples, Intercepts: ex.Intercepts, Transcript: ex.Transcript}
		if res.Violations == nil {
			res.Violations = []*interp.Violation{}
		}
		output.Entries = append(output.Entries, res)
		fmt.Fprintf(os.Stderr, "gosym: %-60s paths=%d forks=%d ends=%v viol=%d queries=%d (%.1fs solver) wall=%.1fs complete=%v %s\n",
			e.name, res.Paths, res.Forks, res.Ends, len(res.Violations), res.Queries, res.SolverSec, res.WallSec, res.Complete, res.StopReason)
		if *verbose {
			for id, a := range res.Asserts {
				fmt.Fprintf(os.Stderr, "    assert %-40s %+v\n", id, *a)
			}
			for m, n := range res.Unsupported {
				fmt.Fprintf(os.Stderr, "    unsupported x%d: %s\n", n, m)
			}
			for _, v := range res.Violations {
				b, _ := json.Marshal(v.Model)
				fmt.Fprintf(os.Stderr, "    VIOLATION %s %s %s %s\n", v.ID, v.Kind, v.Msg, b)
			}
		}
	}
	for _, w := range ws {
		w.Close()
	}
	b, _ := json.MarshalIndent(output, "", " ")
	if *out != "" {
		if err := os.WriteFile(*out, b, 0644); err != nil {
			fatal(err)
		}
	} else {
		os.Stdout.Write(b)
	}
}

func fatal(err error) {
	fmt.Fprintln(os.Stderr, "gosym:", err)
	os.Exit(3)
}
