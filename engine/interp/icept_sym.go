package interp

// Harness API (package grog/internal/zzverif/sym) and hashing model.

import (
	"crypto/sha256"
	"fmt"
	"go/types"
	"strings"

	"gosym/smt"
)

const symPkg = "grog/internal/zzverif/sym."

func cstr(v value) string {
	s, ok := normStr(v).(string)
	if !ok {
		panic(unsupported("engine API needs a concrete string argument"))
	}
	return s
}

func alphabetRe(alpha string) string {
	if alpha == "" {
		return `(re.* (re.range " " "~"))`
	}
	var parts []string
	for i := 0; i < len(alpha); i++ {
		parts = append(parts, "(str.to_re "+quoteSMT(alpha[i:i+1])+")")
	}
	if len(parts) == 1 {
		return "(re.* " + parts[0] + ")"
	}
	return "(re.* (re.union " + strings.Join(parts, " ") + "))"
}

func quoteSMT(s string) string { return smt.StrC(s).String() }

func charIn(c *smt.Term, alpha string) *smt.Term {
	if alpha == "" {
		return smt.And(smt.Le(smt.IntC(32), c), smt.Le(c, smt.IntC(126)))
	}
	// merge contiguous ranges
	var present [256]bool
	for i := 0; i < len(alpha); i++ {
		present[alpha[i]] = true
	}
	var ors []*smt.Term
	for i := 0; i < 256; i++ {
		if !present[i] {
			continue
		}
		j := i
		for j+1 < 256 && present[j+1] {
			j++
		}
		if i == j {
			ors = append(ors, smt.Eq(c, smt.IntC(int64(i))))
		} else {
			ors = append(ors, smt.And(smt.Le(smt.IntC(int64(i)), c), smt.Le(c, smt.IntC(int64(j)))))
		}
		i = j
	}
	return smt.Or(ors...)
}

func (r *runState) newStringA(name string, maxLen int, alpha string) value {
	t := r.declare(name, smt.SString, "string")
	r.assertPC(smt.Le(smt.StrLen(t), smt.IntC(int64(maxLen))))
	r.assertPC(smt.InRe(t, alphabetRe(alpha)))
	return symStr{t}
}

func (r *runState) newStringB(name string, maxLen int, alpha string) value {
	n := r.choose(maxLen + 1)
	r.choices[name+".len"] = int64(n)
	cs := make([]value, n)
	for i := 0; i < n; i++ {
		c := r.declare(fmt.Sprintf("%s[%d]", name, i), smt.SInt, "char")
		r.assertPC(charIn(c, alpha))
		cs[i] = symInt{c, types.Uint8}
	}
	return normStr(symStrB{cs})
}

func init() {
	register(symPkg+"Bool", func(fr *frame, args []value) value {
		return symBool{fr.run().declare(cstr(args[0]), smt.SBool, "bool")}
	})
	register(symPkg+"Int", func(fr *frame, args []value) value {
		r := fr.run()
		lo, hi := asInt64(args[1]), asInt64(args[2])
		if lo == hi {
			return int(lo)
		}
		t := r.declare(cstr(args[0]), smt.SInt, "int")
		r.assertPC(smt.And(smt.Le(smt.IntC(lo), t), smt.Le(t, smt.IntC(hi))))
		return symInt{t, types.Int}
	})
	register(symPkg+"String", func(fr *frame, args []value) value {
		return fr.run().newStringA(cstr(args[0]), int(asInt64(args[1])), "")
	})
	register(symPkg+"StringAlpha", func(fr *frame, args []value) value {
		return fr.run().newStringA(cstr(args[0]), int(asInt64(args[1])), cstr(args[2]))
	})
	register(symPkg+"StringN", func(fr *frame, args []value) value {
		return fr.run().newStringB(cstr(args[0]), int(asInt64(args[1])), "")
	})
	register(symPkg+"StringNAlpha", func(fr *frame, args []value) value {
		return fr.run().newStringB(cstr(args[0]), int(asInt64(args[1])), cstr(args[2]))
	})
	register(symPkg+"Choice", func(fr *frame, args []value) value {
		r := fr.run()
		name := cstr(args[0])
		if k, ok := r.choices[name]; ok {
			return int(k) // a named input has one value per path
		}
		k := r.choose(int(asInt64(args[1])))
		r.choices[name] = int64(k)
		return k
	})
	register(symPkg+"Assume", func(fr *frame, args []value) value {
		fr.run().assume(args[0])
		return nil
	})
	register(symPkg+"Assert", func(fr *frame, args []value) value {
		fr.run().checkAssert(args[0], cstr(args[1]))
		return nil
	})
	register(symPkg+"Reach", func(fr *frame, args []value) value {
		r := fr.run()
		r.ex.mu.Lock()
		r.ex.Reached[cstr(args[0])]++
		r.ex.mu.Unlock()
		return nil
	})
	register(symPkg+"And", func(fr *frame, args []value) value {
		return mkBool(smt.And(boolTerm(args[0]), boolTerm(args[1])))
	})
	register(symPkg+"Or", func(fr *frame, args []value) value {
		return mkBool(smt.Or(boolTerm(args[0]), boolTerm(args[1])))
	})
	register(symPkg+"Not", func(fr *frame, args []value) value {
		return mkBool(smt.Not(boolTerm(args[0])))
	})
	register(symPkg+"Implies", func(fr *frame, args []value) value {
		return mkBool(smt.Implies(boolTerm(args[0]), boolTerm(args[1])))
	})
	register(symPkg+"Iff", func(fr *frame, args []value) value {
		return mkBool(smt.Eq(boolTerm(args[0]), boolTerm(args[1])))
	})
	register(symPkg+"IteStr", func(fr *frame, args []value) value {
		c := boolTerm(args[0])
		if c.IsConst {
			if c.B {
				return args[1]
			}
			return args[2]
		}
		return mkSymStr(smt.Ite(c, strTerm(args[1]), strTerm(args[2])))
	})
	register(symPkg+"IteInt", func(fr *frame, args []value) value {
		c := boolTerm(args[0])
		if c.IsConst {
			if c.B {
				return args[1]
			}
			return args[2]
		}
		return mkSymInt(smt.Ite(c, intTerm(args[1]), intTerm(args[2])), types.Int)
	})
	// non-forking string predicates for oracles
	register(symPkg+"HasPrefix", func(fr *frame, args []value) value {
		return mkBool(smt.PrefixOf(strTerm(args[1]), strTerm(args[0])))
	})
	register(symPkg+"HasSuffix", func(fr *frame, args []value) value {
		return mkBool(smt.SuffixOf(strTerm(args[1]), strTerm(args[0])))
	})
	register(symPkg+"Contains", func(fr *frame, args []value) value {
		return mkBool(smt.Contains(strTerm(args[0]), strTerm(args[1])))
	})
	register(symPkg+"StrEq", func(fr *frame, args []value) value {
		return mkBool(strEqTerm(args[0], args[1]))
	})
	register(symPkg+"StrLess", func(fr *frame, args []value) value {
		return mkBool(strLtTerm(args[0], args[1]))
	})
	register(symPkg+"Matches", func(fr *frame, args []value) value {
		// Matches(s, alphabet): every char of s is in alphabet (non forking)
		alpha := cstr(args[1])
		if cs, ok := toB(args[0]); ok {
			var conj []*smt.Term
			for _, c := range cs {
				conj = append(conj, charIn(charTerm(c), alpha))
			}
			return mkBool(smt.And(conj...))
		}
		return mkBool(smt.InRe(strTerm(args[0]), alphabetRe(alpha)))
	})
	register(symPkg+"Note", func(fr *frame, args []value) value {
		r := fr.run()
		v := normStr(args[1])
		if s, ok := v.(string); ok {
			r.notes[cstr(args[0])] = s
		} else {
			r.notes[cstr(args[0])] = strTerm(v).String()
		}
		return nil
	})
	register(symPkg+"AllowPanic", func(fr *frame, args []value) value {
		fr.run().noPanicOK = true
		return nil
	})
	register(symPkg+"MapOrder", func(fr *frame, args []value) value {
		fr.run().mapOrder = args[0].(bool)
		return nil
	})
	register(symPkg+"Symbolic", func(fr *frame, args []value) value { return true })
	register(symPkg+"Yield", func(fr *frame, args []value) value {
		fr.sched().yieldPoint(fr.g, "sym.Yield")
		return nil
	})
	register(symPkg+"IsConcrete", func(fr *frame, args []value) value {
		_, ok := normStr(args[0]).(string)
		return ok
	})
	register(symPkg+"Failf", func(fr *frame, args []value) value {
		fr.run().checkAssert(false, cstr(args[0]))
		return nil
	})

	// hashing model ---------------------------------------------------------
	const hp = "grog/internal/hashing."
	register(hp+"newXXH3Hasher", func(fr *frame, args []value) value { return fr.newModelHasher("xxh3Hasher", "xxh3") })
	register(hp+"newSHA256Hasher", func(fr *frame, args []value) value { return fr.newModelHasher("sha256Hasher", "sha256") })
	for _, tn := range []string{"xxh3Hasher", "sha256Hasher"} {
		register("(*"+hp+tn+").Write", func(fr *frame, args []value) value {
			h := fr.hasherOf(args[0])
			var s value
			switch p := args[1].(type) {
			case []value:
				s = bytesToStr(p)
			case symBytes:
				s = p.s
			default:
				panic(unsupported(fmt.Sprintf("hasher.Write(%T)", p)))
			}
			h.stream = strConcat(h.stream, s)
			return tuple{strLenValue(s), iface{}}
		})
		register("(*"+hp+tn+").WriteString", func(fr *frame, args []value) value {
			h := fr.hasherOf(args[0])
			h.stream = strConcat(h.stream, args[1])
			return tuple{strLenValue(args[1]), iface{}}
		})
		register("(*"+hp+tn+").SumString", func(fr *frame, args []value) value {
			h := fr.hasherOf(args[0])
			return fr.run().applyHash(h.alg, h.stream)
		})
	}
}

// symBytes is an immutable []byte view of a string value (avoids forking on length).
type symBytes struct {
	s value
	n value // optional modelled length (when it differs from the length of s)
}

type modelHasher struct {
	alg    string
	stream value
}

type hashApp struct {
	alg    string
	stream *smt.Term
	sval   value
	res    *smt.Term
	ord    *smt.Term // abstract position of the digest in the (arbitrary but fixed) order of digests
}

func (fr *frame) newModelHasher(typeName, alg string) value {
	pkg := fr.i.prog.ImportedPackage("grog/internal/hashing")
	t := pkg.Type(typeName).Type()
	st := zero(t)
	cell := new(value)
	*cell = st
	fr.run().objs[fmt.Sprintf("hasher:%p", cell)] = &modelHasher{alg: alg, stream: ""}
	return iface{t: types.NewPointer(t), v: cell}
}

func (fr *frame) hasherOf(recv value) *modelHasher {
	h, ok := fr.run().objs[fmt.Sprintf("hasher:%p", recv.(*value))]
	if !ok {
		panic(unsupported("hasher not created through GetHasher"))
	}
	return h.(*modelHasher)
}

func hashLen(alg string) int {
	if alg == "sha256" {
		return 64
	}
	return 32
}

func concreteDigest(alg, stream string) string {
	sum := sha256.Sum256([]byte(alg + "\x00" + stream))
	return fmt.Sprintf("%x", sum)[:hashLen(alg)]
}

// applyHash models H_alg(stream): uninterpreted, injective, fixed-length lowercase hex.
func (r *runState) applyHash(alg string, stream value) value {
	stream = normStr(stream)
	st := strTerm(stream)
	var res *smt.Term
	if s, ok := stream.(string); ok {
		res = smt.StrC(concreteDigest(alg, s))
	} else {
		// reuse an existing application on a syntactically identical stream
		for _, a := range r.hashApps {
			if a.alg == alg && smt.Same(a.stream, st) {
				return mkSymStr(a.res)
			}
		}
		res = r.declare(r.fresh("H_"+alg), smt.SString, "hash")
		// digests have the fixed length of the algorithm's hex rendering (known to the term
		// simplifier, so that e.g. length-framed digests get a concrete prefix)
		r.assertPC(smt.Eq(smt.StrLen(res), smt.IntC(int64(hashLen(alg)))))
		res.KnownLen = hashLen(alg)
		// digests are hex strings; all the model needs is that they are separator free
		r.sepFree[res.Name] = true
	}
	// digests are only ever compared with each other: their order is modelled by an integer rank
	// (an arbitrary total order, consistent with equality) instead of str.< on unconstrained strings
	var ord *smt.Term
	for _, a := range r.hashApps {
		if a.res.IsConst && res.IsConst && a.res.S == res.S {
			ord = a.ord
		}
	}
	if ord == nil {
		ord = r.declare(r.fresh("ord"), smt.SInt, "ord")
	}
	for _, a := range r.hashApps {
		if a.alg != alg {
			continue
		}
		if a.res.IsConst && res.IsConst {
			if a.res.S != res.S {
				r.assertPC(smt.Not(smt.Eq(a.ord, ord)))
			}
			continue
		}
		eq := strEqTerm(a.sval, stream)
		r.assertPC(smt.Eq(smt.Eq(a.res, res), eq))
		r.assertPC(smt.Eq(smt.Eq(a.ord, ord), eq))
	}
	r.hashApps = append(r.hashApps, hashApp{alg, st, stream, res, ord})
	return mkSymStr(res)
}

func init() {
	register(symPkg+"Tier", func(fr *frame, args []value) value { return Tier })
}

func init() {
	// crash / fault injection and process identity
	register(symPkg+"RunToCrash", func(fr *frame, args []value) (res value) {
		fr.g.crashArmed++
		firstNew := len(fr.sched().gs)
		g := fr.g
		defer func() {
			g.crashArmed--
			if p := recover(); p != nil {
				if _, ok := p.(crashNow); ok {
					// the process is dead: none of its goroutines runs any further
					if g.pid != 0 {
						fr.sched().killPid(g.pid, g, firstNew)
					} else {
						fr.sched().killFrom(firstNew)
					}
					res = true
					return
				}
				panic(p)
			}
		}()
		call(fr.i, fr, 0, args[0], nil)
		return false
	})
	register(symPkg+"Faults", func(fr *frame, args []value) value {
		r := fr.run()
		r.flags["faultBudget"] = asInt64(args[0])
		r.objs["faultPrefix"] = cstr(args[1])
		r.objs["faultOps"] = cstr(args[2])
		return nil
	})
	register(symPkg+"FaultsInjected", func(fr *frame, args []value) value {
		return int(fr.run().flags["faultsInjected"])
	})
	register(symPkg+"FSVisible", func(fr *frame, args []value) value {
		if args[0].(bool) {
			fr.run().flags["fsVisible"] = 1
		} else {
			fr.run().flags["fsVisible"] = 0
		}
		return nil
	})
	register(symPkg+"SetPid", func(fr *frame, args []value) value {
		fr.g.pid = asInt64(args[0]) // the model process id of this goroutine (and goroutines it starts)
		return nil
	})
	register(symPkg+"CrashBudget", func(fr *frame, args []value) value {
		fr.run().flags["crashBudgetSet"] = 1
		fr.run().flags["crashBudget"] = asInt64(args[0])
		return nil
	})
	register(symPkg+"TempDir", func(fr *frame, args []value) value {
		p := "/" + cstr(args[0])
		fr.run().FS().mkdirAll(p)
		return p
	})
}

func init() {
	register(symPkg+"CountCalls", func(fr *frame, args []value) value {
		r := fr.run()
		if r.callCounts == nil {
			r.callCounts = map[string]int{}
		}
		r.callCounts[cstr(args[0])] = 0
		return nil
	})
	register(symPkg+"Calls", func(fr *frame, args []value) value {
		return fr.run().callCounts[cstr(args[0])]
	})
}

func init() {
	register(symPkg+"Steps", func(fr *frame, args []value) value { return fr.run().steps })
	register(symPkg+"NoteInt", func(fr *frame, args []value) value {
		fr.run().notes[cstr(args[0])] = fmt.Sprint(asInt64(fr.concretizeInt(args[1])))
		return nil
	})
}

// digestOrd returns the rank term of v if v is (syntactically) the result of a hash application.
func (r *runState) digestOrd(v value) *smt.Term {
	v = normStr(v)
	switch x := v.(type) {
	case string:
		for _, a := range r.hashApps {
			if a.res.IsConst && a.res.S == x {
				return a.ord
			}
		}
	case symStr:
		if x.t.Op == "var" {
			for _, a := range r.hashApps {
				if a.res == x.t || (a.res.Op == "var" && a.res.Name == x.t.Name) {
					return a.ord
				}
			}
		}
	}
	return nil
}

func init() {
	register(symPkg+"FSLog", func(fr *frame, args []value) value {
		var out []value
		for _, l := range fr.run().FS().opLog {
			out = append(out, l)
		}
		return out
	})
	register(symPkg+"Class", func(fr *frame, args []value) value {
		fr.run().class = cstr(args[0])
		return nil
	})
}

func init() {
	// Transcript: concrete cross-validation of the engine against the native build
	register(symPkg+"Transcript", func(fr *frame, args []value) value {
		r := fr.run()
		v := normStr(args[0])
		line, ok := v.(string)
		if !ok {
			line = "<symbolic:" + strTerm(v).String() + ">"
		}
		r.transcript = append(r.transcript, line)
		return nil
	})
}
