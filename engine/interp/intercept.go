package interp

// Intercept table, global variable handling, init phase, program setup.

import (
	"fmt"
	"go/token"
	"go/types"
	"os"
	"strings"

	"golang.org/x/tools/go/ssa"
)

type intercept func(fr *frame, args []value) value

// nativeFunc is a Go func value implemented by the engine.
type nativeFunc struct {
	name string
	fn   func(fr *frame, args []value) value
}

var interceptTable = map[string]intercept{}

func register(name string, f intercept) {
	if _, dup := interceptTable[name]; dup {
		panic("duplicate intercept " + name)
	}
	interceptTable[name] = f
}

// packages whose functions all get empty bodies (logging / UI)
var stubPackages = map[string]bool{
	"grog/internal/console":              true,
	"go.uber.org/zap":                    true,
	"go.uber.org/zap/zapcore":            true,
	"github.com/fatih/color":             true,
	"github.com/charmbracelet/bubbletea": true,
	"github.com/charmbracelet/lipgloss":  true,
	"log":                                true,
}

// packages whose init functions are executed in the init phase
var initAllow = map[string]bool{
	"errors": true, "io": true, "io/fs": true, "os": true, "context": true, "strings": true,
	"strconv": true, "sort": true, "path": true, "path/filepath": true, "bytes": true, "bufio": true,
	"unicode/utf8": true, "syscall": true, "internal/oserror": true, "math": true, "slices": true,
	"maps": true, "cmp": true, "iter": true, "internal/bytealg": true, "internal/filepathlite": true,
	"internal/stringslite": true, "time": true, "os/exec": false, "unicode": true,
	"github.com/bmatcuk/doublestar/v4": true,
}

func allowInit(p *ssa.Package) bool {
	path := p.Pkg.Path()
	if v, ok := initAllow[path]; ok {
		return v
	}
	if stubPackages[path] {
		return false
	}
	if strings.HasPrefix(path, "grog/") {
		if strings.HasPrefix(path, "grog/internal/cmd") || strings.HasPrefix(path, "grog/internal/proto") {
			return false
		}
		return true
	}
	return false
}

type poison struct{ what string }

func (i *interpreter) lookupIntercept(fn *ssa.Function) intercept {
	if ic, ok := i.icache[fn]; ok {
		return ic
	}
	var ic intercept
	name := fn.String()
	if f, ok := interceptTable[name]; ok {
		ic = f
	} else if o := fn.Origin(); o != nil {
		if f, ok := interceptTable[o.String()]; ok {
			ic = f
		}
	}
	if ic == nil && fn.Pkg != nil && fn.Parent() == nil {
		path := fn.Pkg.Pkg.Path()
		if stubPackages[path] {
			sig := fn.Signature
			ic = func(fr *frame, args []value) value {
				return stubResults(sig, args)
			}
		} else if fn.Name() == "init" && fn.Synthetic != "" && strings.HasPrefix(fn.Synthetic, "package init") {
			pkg := fn.Pkg
			ic = func(fr *frame, args []value) value {
				if !fr.i.inInit || !allowInit(pkg) || fr.i.initDone[pkg] {
					return nil
				}
				fr.i.initDone[pkg] = true
				return fr.i.runBody(fr, fn, args)
			}
		}
	}
	if ic != nil {
		inner := ic
		ic = func(fr *frame, args []value) value {
			if r := fr.i.cur; r != nil && r.ex != nil {
				r.icount(name)
			}
			defer func() {
				if p := recover(); p != nil {
					if u, ok := p.(unsupportedErr); ok && !strings.Contains(u.msg, " [in ") {
						panic(unsupportedErr{u.msg + " [in " + name + "]"})
					}
					panic(p)
				}
			}()
			return inner(fr, args)
		}
	}
	i.icache[fn] = ic
	return ic
}

func (r *runState) icount(name string) {
	if r.icounts == nil {
		r.icounts = map[string]int{}
	}
	r.icounts[name]++
}

// zeroResults builds the result of a stubbed (empty-body) function: zero values, except that
// pointers to structs are fresh zero structs so that promoted-method calls on them do not fault.
func zeroResults(sig *types.Signature) value {
	one := func(t types.Type) value {
		if p, ok := t.Underlying().(*types.Pointer); ok {
			if _, ok := p.Elem().Underlying().(*types.Struct); ok {
				cell := new(value)
				*cell = zero(p.Elem())
				return cell
			}
		}
		if fsig, ok := t.Underlying().(*types.Signature); ok {
			// a stubbed function returning a function: hand out a callable stub
			return nativeFunc{name: "stub", fn: func(fr *frame, args []value) value { return zeroResults(fsig) }}
		}
		return zero(t)
	}
	switch sig.Results().Len() {
	case 0:
		return nil
	case 1:
		return one(sig.Results().At(0).Type())
	}
	out := make(tuple, sig.Results().Len())
	for i := range out {
		out[i] = one(sig.Results().At(i).Type())
	}
	return out
}

// stubResults is zeroResults, except that a context.Context result is the function's first
// context.Context argument (the stubbed console helpers only decorate the context they get).
func stubResults(sig *types.Signature, args []value) value {
	res := zeroResults(sig)
	off := 0
	if sig.Recv() != nil {
		off = 1
	}
	var ctxArg value
	for i := 0; i < sig.Params().Len(); i++ {
		if isContextType(sig.Params().At(i).Type()) && off+i < len(args) {
			ctxArg = args[off+i]
			break
		}
	}
	if ctxArg == nil {
		return res
	}
	switch sig.Results().Len() {
	case 0:
		return res
	case 1:
		if isContextType(sig.Results().At(0).Type()) {
			return ctxArg
		}
		return res
	}
	t := res.(tuple)
	for i := range t {
		if isContextType(sig.Results().At(i).Type()) {
			t[i] = ctxArg
		}
	}
	return t
}

func isContextType(t types.Type) bool {
	n, ok := t.(*types.Named)
	return ok && n.Obj().Pkg() != nil && n.Obj().Pkg().Path() == "context" && n.Obj().Name() == "Context"
}

// runBody executes fn's SSA body bypassing the intercept lookup.
func (i *interpreter) runBody(caller *frame, fn *ssa.Function, args []value) value {
	return callSSABody(i, caller, token.NoPos, fn, args, nil)
}

// ---------------------------------------------------------------------------------
// globals

func (i *interpreter) globalAddr(g *ssa.Global) *value {
	if !i.inInit {
		i.touched[g] = true
	}
	if c, ok := i.globals[g]; ok {
		return c
	}
	cell := new(value)
	if i.initStores[g] && !i.initDone[g.Pkg] && !i.inInit {
		*cell = poison{g.String()}
	} else {
		*cell = zero(mustDeref(g.Type()))
	}
	i.globals[g] = cell
	return cell
}

func deepCopy(v value) value {
	switch v := v.(type) {
	case structure:
		c := make(structure, len(v))
		for i := range v {
			c[i] = deepCopy(v[i])
		}
		return c
	case array:
		c := make(array, len(v))
		for i := range v {
			c[i] = deepCopy(v[i])
		}
		return c
	}
	return v
}

// snapshotGlobals records the post-init values.
func (i *interpreter) snapshotGlobals() {
	i.baseline = map[*ssa.Global]value{}
	for g, c := range i.globals {
		i.baseline[g] = deepCopy(*c)
	}
}

// resetGlobals restores every global touched by the previous path.
func (i *interpreter) resetGlobals() {
	for g := range i.touched {
		c := i.globals[g]
		if b, ok := i.baseline[g]; ok {
			*c = deepCopy(b)
		} else if i.initStores[g] && !i.initDone[g.Pkg] {
			*c = poison{g.String()}
		} else {
			*c = zero(mustDeref(g.Type()))
		}
	}
	i.touched = map[*ssa.Global]bool{}
}

// scanInitStores finds globals assigned by package initialisers.
func (i *interpreter) scanInitStores() {
	for _, pkg := range i.prog.AllPackages() {
		for name, m := range pkg.Members {
			fn, ok := m.(*ssa.Function)
			if !ok || !(name == "init" || strings.HasPrefix(name, "init#")) {
				continue
			}
			for _, b := range fn.Blocks {
				for _, ins := range b.Instrs {
					if st, ok := ins.(*ssa.Store); ok {
						markGlobalStore(i, st.Addr)
					}
				}
			}
		}
	}
}

func markGlobalStore(i *interpreter, addr ssa.Value) {
	switch a := addr.(type) {
	case *ssa.Global:
		if a.Name() != "init$guard" {
			i.initStores[a] = true
		}
	case *ssa.FieldAddr:
		markGlobalStore(i, a.X)
	case *ssa.IndexAddr:
		markGlobalStore(i, a.X)
	}
}

// ---------------------------------------------------------------------------------
// interpreter construction

// NewInterpreter creates an interpreter instance for prog and runs the init phase
// for the given root packages.
func NewInterpreter(prog *ssa.Program, sizes types.Sizes, roots []*ssa.Package, verbose bool) *interpreter {
	i := &interpreter{
		prog:       prog,
		globals:    make(map[*ssa.Global]*value),
		sizes:      sizes,
		touched:    map[*ssa.Global]bool{},
		initStores: map[*ssa.Global]bool{},
		initDone:   map[*ssa.Package]bool{},
		icache:     map[*ssa.Function]intercept{},
	}
	if runtimePkg := prog.ImportedPackage("runtime"); runtimePkg != nil {
		i.runtimeErrorString = runtimePkg.Type("errorString").Object().Type()
	}
	i.scanInitStores()
	// init phase
	i.inInit = true
	ex := NewExplorer("init", Options{MaxSteps: 50_000_000, Workers: 1})
	i.cur = &runState{ex: ex, varIdx: map[string]int{}, choices: map[string]int64{}, notes: map[string]string{}, flags: map[string]int64{}, objs: map[string]any{}, initPhase: true}
	for _, p := range roots {
		func() {
			defer func() {
				if r := recover(); r != nil {
					fmt.Fprintf(os.Stderr, "gosym: init of %s failed: %v\n", p.Pkg.Path(), r)
				}
			}()
			root := &frame{i: i, g: i.cur.scheduler().gs[0]}
			if initFn := p.Func("init"); initFn != nil {
				call(i, root, token.NoPos, initFn, nil)
			}
		}()
	}
	i.inInit = false
	i.cur = nil
	i.snapshotGlobals()
	if verbose {
		n := 0
		for range i.initDone {
			n++
		}
		fmt.Fprintf(os.Stderr, "gosym: init phase ran %d package inits, %d globals materialised\n", n, len(i.globals))
	}
	return i
}

func (i *interpreter) Prog() *ssa.Program { return i.prog }

// CallEntry runs fn (no arguments) as the main goroutine of the current path.
func (w *Worker) CallEntry(fn *ssa.Function) {
	i := w.i
	root := &frame{i: i, g: i.cur.scheduler().gs[0]}
	defer func() {
		if p := recover(); p != nil {
			switch p := p.(type) {
			case targetPanic:
				panic(pathEnd{endPanic, "panic: " + toString(p.v)})
			case runtimeErr:
				panic(pathEnd{endPanic, "panic: " + string(p)})
			}
			panic(p)
		}
	}()
	call(i, root, token.NoPos, fn, nil)
}

func NewWorker(id int, i *interpreter, solverCmd []string) (*Worker, error) {
	s, err := newSolver(solverCmd)
	if err != nil {
		return nil, err
	}
	return &Worker{id: id, i: i, solver: s}, nil
}

func (w *Worker) Close() { w.solver.Close() }
