package interp

// Engine model of io.Pipe (synchronous in-memory pipe) moving whole string chunks.

import (
	"fmt"
	"go/token"
)

type pipeState struct {
	pending  value // chunk written and not yet consumed
	has      bool
	wclosed  bool
	rclosed  bool
	werr     value // error given to CloseWithError on the write side (iface)
	rerr     value
	consumed int
}

func (fr *frame) pipeOf(recv value) *pipeState {
	p, _ := fr.run().objs[fmt.Sprintf("pipe:%p", recv.(*value))].(*pipeState)
	if p == nil {
		panic(unsupported("io.Pipe: unknown pipe handle"))
	}
	return p
}

func init() {
	register("io.Pipe", func(fr *frame, a []value) value {
		ps := &pipeState{}
		rt := fr.typeOf("io", "PipeReader")
		wt := fr.typeOf("io", "PipeWriter")
		rc, wc := new(value), new(value)
		*rc, *wc = zero(rt), zero(wt)
		fr.run().objs[fmt.Sprintf("pipe:%p", rc)] = ps
		fr.run().objs[fmt.Sprintf("pipe:%p", wc)] = ps
		return tuple{rc, wc}
	})
	pwrite := func(fr *frame, recv value, s value) value {
		ps := fr.pipeOf(recv)
		sch := fr.sched()
		sch.yieldPoint(fr.g, "pipe write")
		closedErr := func() value { return fr.globalErr("io", "ErrClosedPipe") }
		if ps.wclosed {
			return tuple{0, closedErr()}
		}
		// wait for the previous chunk to be consumed
		sch.block(fr.g, "pipe write (previous chunk)", func() bool { return !ps.has || ps.rclosed })
		if ps.rclosed {
			if e, ok := ps.rerr.(iface); ok && e.t != nil {
				return tuple{0, e}
			}
			return tuple{0, closedErr()}
		}
		ps.pending, ps.has = s, true
		sch.block(fr.g, "pipe write (waiting for reader)", func() bool { return !ps.has || ps.rclosed })
		if ps.has && ps.rclosed {
			ps.has = false
			if e, ok := ps.rerr.(iface); ok && e.t != nil {
				return tuple{0, e}
			}
			return tuple{0, closedErr()}
		}
		return tuple{strLenValue(normStr(s)), nilErr}
	}
	register("(*io.PipeWriter).Write", func(fr *frame, a []value) value { return pwrite(fr, a[0], bytesArgToStr(a[1])) })
	closeW := func(fr *frame, recv value, err value) value {
		ps := fr.pipeOf(recv)
		if !ps.wclosed {
			ps.wclosed = true
			ps.werr = err
		}
		fr.sched().yieldPoint(fr.g, "pipe close")
		return nilErr
	}
	register("(*io.PipeWriter).Close", func(fr *frame, a []value) value { return closeW(fr, a[0], nilErr) })
	register("(*io.PipeWriter).CloseWithError", func(fr *frame, a []value) value { return closeW(fr, a[0], a[1]) })
	closeR := func(fr *frame, recv value, err value) value {
		ps := fr.pipeOf(recv)
		if !ps.rclosed {
			ps.rclosed = true
			ps.rerr = err
		}
		fr.sched().yieldPoint(fr.g, "pipe close")
		return nilErr
	}
	register("(*io.PipeReader).Close", func(fr *frame, a []value) value { return closeR(fr, a[0], nilErr) })
	register("(*io.PipeReader).CloseWithError", func(fr *frame, a []value) value { return closeR(fr, a[0], a[1]) })
}

// drainPipe reads until the write side is closed; returns content and the close error (if any).
func (fr *frame) drainPipe(ps *pipeState) (value, value) {
	sch := fr.sched()
	var acc value = ""
	for {
		sch.yieldPoint(fr.g, "pipe read")
		sch.block(fr.g, "pipe read", func() bool { return ps.has || ps.wclosed || ps.rclosed })
		if ps.rclosed {
			return acc, fr.globalErr("io", "ErrClosedPipe")
		}
		if ps.has {
			acc = strConcat(acc, ps.pending)
			ps.has = false
			ps.pending = nil
			continue
		}
		// write side closed and nothing pending
		if e, ok := ps.werr.(iface); ok && e.t != nil {
			return acc, e
		}
		return acc, nilErr
	}
}

var _ = token.NoPos
