package interp

// Model of protobuf (de)serialisation: proto.Marshal returns an opaque byte token that is
// injective in the message's exported field values; proto.Unmarshal of a token restores a
// deep copy of the marshalled message; anything else fails to parse.

import (
	"crypto/sha256"
	"fmt"
	"go/types"
	"strings"

	"gosym/smt"
)

type protoToken struct {
	size   value // modelled length of the wire encoding
	tok    value // string value of the token
	shape  string
	leaves []value
	ltypes []types.Type
	snap   value // deep copy of the message struct (structure)
	typ    types.Type
}

// flattenMsg walks a message value of static type t, appending leaf values and building a shape string.
func flattenMsg(v value, t types.Type, shape *strings.Builder, leaves *[]value, ltypes *[]types.Type) {
	switch tt := t.Underlying().(type) {
	case *types.Basic:
		shape.WriteString("b;")
		*leaves = append(*leaves, v)
		*ltypes = append(*ltypes, t)
	case *types.Pointer:
		p := v.(*value)
		if p == nil {
			shape.WriteString("nil;")
			return
		}
		shape.WriteString("&")
		flattenMsg(*p, tt.Elem(), shape, leaves, ltypes)
	case *types.Struct:
		st := v.(structure)
		fmt.Fprintf(shape, "{%s:", typeName(t))
		for i := 0; i < tt.NumFields(); i++ {
			f := tt.Field(i)
			if !f.Exported() {
				continue
			}
			flattenMsg(st[i], f.Type(), shape, leaves, ltypes)
		}
		shape.WriteString("}")
	case *types.Slice:
		if sb, ok := v.(symBytes); ok {
			shape.WriteString("bytes;")
			*leaves = append(*leaves, sb.s)
			*ltypes = append(*ltypes, types.Typ[types.String])
			return
		}
		xs := v.([]value)
		if eb, ok := tt.Elem().Underlying().(*types.Basic); ok && eb.Kind() == types.Uint8 {
			shape.WriteString("bytes;")
			*leaves = append(*leaves, bytesToStr(xs))
			*ltypes = append(*ltypes, types.Typ[types.String])
			return
		}
		fmt.Fprintf(shape, "[%d:", len(xs))
		for _, x := range xs {
			flattenMsg(x, tt.Elem(), shape, leaves, ltypes)
		}
		shape.WriteString("]")
	case *types.Interface:
		iv := v.(iface)
		if iv.t == nil {
			shape.WriteString("inil;")
			return
		}
		fmt.Fprintf(shape, "i<%s>", typeName(iv.t))
		flattenMsg(iv.v, iv.t, shape, leaves, ltypes)
	case *types.Map:
		m := v.(*gomap)
		fmt.Fprintf(shape, "m%d;", m.len())
		if m.len() > 0 {
			panic(unsupported("proto model: map fields"))
		}
	default:
		panic(unsupported(fmt.Sprintf("proto model: field of type %s", t)))
	}
}

func typeName(t types.Type) string {
	s := t.String()
	if i := strings.LastIndex(s, "/"); i >= 0 {
		s = s[i+1:]
	}
	return s
}

// copyMsg deep-copies a message value (fresh cells for every pointer).
func copyMsg(v value, t types.Type) value {
	switch tt := t.Underlying().(type) {
	case *types.Pointer:
		p := v.(*value)
		if p == nil {
			return p
		}
		c := new(value)
		*c = copyMsg(*p, tt.Elem())
		return c
	case *types.Struct:
		st := v.(structure)
		out := make(structure, len(st))
		for i := range st {
			f := tt.Field(i)
			if !f.Exported() {
				out[i] = zero(f.Type())
				continue
			}
			out[i] = copyMsg(st[i], f.Type())
		}
		return out
	case *types.Slice:
		xs, ok := v.([]value)
		if !ok {
			return v
		}
		if xs == nil {
			return xs
		}
		out := make([]value, len(xs))
		for i, x := range xs {
			out[i] = copyMsg(x, tt.Elem())
		}
		return out
	case *types.Interface:
		iv := v.(iface)
		if iv.t == nil {
			return iv
		}
		return iface{t: iv.t, v: copyMsg(iv.v, iv.t)}
	}
	return v
}

func leafEq(t types.Type, a, b value) *smt.Term {
	return eqTerm(t, a, b)
}

func (fr *frame) protoMarshal(m iface) value {
	if m.t == nil {
		return tuple{[]value(nil), fr.newError("proto: Marshal called with nil")}
	}
	ptr, ok := m.t.Underlying().(*types.Pointer)
	if !ok {
		panic(unsupported(fmt.Sprintf("proto model: message of type %s", m.t)))
	}
	p := m.v.(*value)
	if p == nil {
		return tuple{symBytes{"", nil}, nilErr}
	}
	var shape strings.Builder
	var leaves []value
	var ltypes []types.Type
	flattenMsg(*p, ptr.Elem(), &shape, &leaves, &ltypes)
	r := fr.run()
	toks, _ := r.objs["protoTokens"].([]*protoToken)
	allConcrete := true
	for _, l := range leaves {
		if isSym(normStr(l)) {
			allConcrete = false
		}
	}
	sh := shape.String()
	var tok, size value
	if allConcrete {
		var b strings.Builder
		b.WriteString("PB1" + sh + "|")
		for _, l := range leaves {
			s := toString(normStr(l))
			fmt.Fprintf(&b, "%d:%s,", len(s), s)
		}
		canonical := b.String()
		// short fixed-length token (digest of the canonical rendering): long constants are costly for the solver
		sum := sha256.Sum256([]byte(canonical))
		tok = fmt.Sprintf("PB1%x", sum[:8])
		size = len(canonical)
		for _, t := range toks {
			if ts, ok := normStr(t.tok).(string); ok && ts == tok {
				return tuple{symBytes{tok, size}, nilErr}
			}
		}
	} else {
		// reuse the token of a message with syntactically identical leaves
		for _, t := range toks {
			if t.shape != sh || len(t.leaves) != len(leaves) {
				continue
			}
			same := true
			for i := range leaves {
				if !leafEq(ltypes[i], t.leaves[i], leaves[i]).IsTrue() {
					same = false
					break
				}
			}
			if same {
				return tuple{symBytes{t.tok, t.size}, nilErr}
			}
		}
		tv := r.declare(r.fresh("PB"), smt.SString, "proto")
		// tokens are non-empty and start with the marker so they never equal other file contents by accident
		r.assertPC(smt.PrefixOf(smt.StrC("PB1"), tv))
		r.assertPC(smt.Eq(smt.StrLen(tv), smt.IntC(19)))
		tv.KnownLen = 19
		tok = symStr{tv}
		sz := r.declare(r.fresh("pbsize"), smt.SInt, "size")
		r.assertPC(smt.And(smt.Le(smt.IntC(1), sz), smt.Le(sz, smt.IntC(1<<20))))
		size = symInt{sz, types.Int}
	}
	// injectivity against earlier tokens
	for _, t := range toks {
		if _, c1 := normStr(t.tok).(string); c1 && allConcrete {
			continue
		}
		if t.shape != sh {
			r.assertPC(smt.Not(strEqTerm(t.tok, tok)))
			continue
		}
		var conj []*smt.Term
		for i := range leaves {
			conj = append(conj, leafEq(ltypes[i], t.leaves[i], leaves[i]))
		}
		r.assertPC(smt.Eq(strEqTerm(t.tok, tok), smt.And(conj...)))
	}
	toks = append(toks, &protoToken{size: size, tok: tok, shape: sh, leaves: leaves, ltypes: ltypes, snap: copyMsg(*p, ptr.Elem()), typ: ptr.Elem()})
	r.objs["protoTokens"] = toks
	return tuple{symBytes{tok, size}, nilErr}
}

func (fr *frame) protoUnmarshal(data value, m iface) value {
	s := normStr(bytesArgToStr(data))
	if m.t == nil {
		return fr.newError("proto: Unmarshal into nil")
	}
	ptr := m.t.Underlying().(*types.Pointer)
	dst := m.v.(*value)
	r := fr.run()
	toks, _ := r.objs["protoTokens"].([]*protoToken)
	if c, ok := s.(string); ok && c == "" {
		// empty input is a valid encoding of the zero message
		*dst = zero(ptr.Elem())
		return nilErr
	}
	for _, t := range toks {
		if !types.Identical(t.typ, ptr.Elem()) {
			continue
		}
		if fr.truth(mkBool(strEqTerm(t.tok, s))) {
			*dst = copyMsg(t.snap, t.typ)
			return nilErr
		}
	}
	return fr.newError("proto: cannot parse invalid wire-format data")
}

func init() {
	const pp = "google.golang.org/protobuf/proto."
	register("("+pp+"MarshalOptions).Marshal", func(fr *frame, a []value) value { return fr.protoMarshal(a[1].(iface)) })
	register(pp+"Marshal", func(fr *frame, a []value) value { return fr.protoMarshal(a[0].(iface)) })
	register(pp+"Unmarshal", func(fr *frame, a []value) value { return fr.protoUnmarshal(a[0], a[1].(iface)) })
	register("("+pp+"UnmarshalOptions).Unmarshal", func(fr *frame, a []value) value { return fr.protoUnmarshal(a[1], a[2].(iface)) })
}
