package interp

// Symbolic scalar values and their operators.

import (
	"fmt"
	"go/token"
	"go/types"

	"gosym/smt"
)

type symBool struct{ t *smt.Term }
type symInt struct {
	t *smt.Term
	k types.BasicKind
}

// rep A: SMT String of unknown length (printable ASCII by construction)
type symStr struct{ t *smt.Term }

// rep B: concrete length, per-character values (uint8 or symInt{k:Uint8})
type symStrB struct{ cs []value }

func (s symStrB) concrete() (string, bool) {
	b := make([]byte, len(s.cs))
	for i, c := range s.cs {
		u, ok := c.(uint8)
		if !ok {
			return "", false
		}
		b[i] = u
	}
	return string(b), true
}

// normStr returns a Go string if v is fully concrete.
func normStr(v value) value {
	if sb, ok := v.(symStrB); ok {
		if s, ok := sb.concrete(); ok {
			return s
		}
	}
	if ss, ok := v.(symStr); ok && ss.t.IsConst {
		return ss.t.S
	}
	return v
}

func isSym(v value) bool {
	switch v.(type) {
	case symBool, symInt, symStr, symStrB:
		return true
	}
	return false
}

func containsSym(v value) bool {
	switch v := v.(type) {
	case symBool, symInt, symStr, symStrB:
		return true
	case structure:
		for _, f := range v {
			if containsSym(f) {
				return true
			}
		}
	case array:
		for _, f := range v {
			if containsSym(f) {
				return true
			}
		}
	case iface:
		return containsSym(v.v)
	}
	return false
}

func kindBits(k types.BasicKind) (bits int, signed bool) {
	switch k {
	case types.Int, types.Int64:
		return 64, true
	case types.Int8:
		return 8, true
	case types.Int16:
		return 16, true
	case types.Int32:
		return 32, true
	case types.Uint, types.Uint64, types.Uintptr:
		return 64, false
	case types.Uint8:
		return 8, false
	case types.Uint16:
		return 16, false
	case types.Uint32:
		return 32, false
	}
	panic(fmt.Sprintf("kindBits: %v", k))
}

func kindOfValue(v value) types.BasicKind {
	switch v := v.(type) {
	case int:
		return types.Int
	case int8:
		return types.Int8
	case int16:
		return types.Int16
	case int32:
		return types.Int32
	case int64:
		return types.Int64
	case uint:
		return types.Uint
	case uint8:
		return types.Uint8
	case uint16:
		return types.Uint16
	case uint32:
		return types.Uint32
	case uint64:
		return types.Uint64
	case uintptr:
		return types.Uintptr
	case symInt:
		return v.k
	}
	panic(fmt.Sprintf("kindOfValue: %T", v))
}

// mkInt builds a concrete integer value of kind k.
func mkInt(k types.BasicKind, i int64) value {
	switch k {
	case types.Int:
		return int(i)
	case types.Int8:
		return int8(i)
	case types.Int16:
		return int16(i)
	case types.Int32:
		return int32(i)
	case types.Int64:
		return i
	case types.Uint:
		return uint(i)
	case types.Uint8:
		return uint8(i)
	case types.Uint16:
		return uint16(i)
	case types.Uint32:
		return uint32(i)
	case types.Uint64:
		return uint64(i)
	case types.Uintptr:
		return uintptr(i)
	}
	panic(fmt.Sprintf("mkInt: %v", k))
}

func isIntValue(v value) bool {
	switch v.(type) {
	case int, int8, int16, int32, int64, uint, uint8, uint16, uint32, uint64, uintptr, symInt:
		return true
	}
	return false
}

// intTerm returns the Int term of an integer value.
func intTerm(v value) *smt.Term {
	switch v := v.(type) {
	case symInt:
		return v.t
	case uint64:
		return smt.IntC(int64(v))
	}
	return smt.IntC(asInt64(v))
}

func boolTerm(v value) *smt.Term {
	switch v := v.(type) {
	case bool:
		return smt.BoolC(v)
	case symBool:
		return v.t
	}
	panic(fmt.Sprintf("boolTerm: %T", v))
}

func mkBool(t *smt.Term) value {
	if t.IsConst {
		return t.B
	}
	return symBool{t}
}

func mkSymInt(t *smt.Term, k types.BasicKind) value {
	if t.IsConst {
		return mkInt(k, t.I)
	}
	return symInt{t, k}
}

func mkSymStr(t *smt.Term) value {
	if t.IsConst {
		return t.S
	}
	return symStr{t}
}

// charTerm: Int term for a byte element of a rep-B string.
func charTerm(c value) *smt.Term { return intTerm(c) }

// strTerm returns the String term of a string value (rep A view).
func strTerm(v value) *smt.Term {
	switch v := v.(type) {
	case string:
		return smt.StrC(v)
	case symStr:
		return v.t
	case symStrB:
		parts := make([]*smt.Term, len(v.cs))
		for i, c := range v.cs {
			parts[i] = smt.FromCode(charTerm(c))
		}
		return smt.Concat(parts...)
	}
	panic(fmt.Sprintf("strTerm: %T", v))
}

func isStrValue(v value) bool {
	switch v.(type) {
	case string, symStr, symStrB:
		return true
	}
	return false
}

// toB converts a concrete string or rep-B to rep-B character vector. ok=false for rep A.
func toB(v value) ([]value, bool) {
	switch v := v.(type) {
	case string:
		cs := make([]value, len(v))
		for i := 0; i < len(v); i++ {
			cs[i] = v[i]
		}
		return cs, true
	case symStrB:
		return v.cs, true
	}
	return nil, false
}

func strLenValue(v value) value {
	switch v := v.(type) {
	case string:
		return len(v)
	case symStrB:
		return len(v.cs)
	case symStr:
		return mkSymInt(smt.StrLen(v.t), types.Int)
	}
	panic(fmt.Sprintf("strLen: %T", v))
}

func strConcat(x, y value) value {
	if xs, ok := x.(string); ok {
		if ys, ok := y.(string); ok {
			return xs + ys
		}
	}
	xb, okx := toB(x)
	yb, oky := toB(y)
	if okx && oky {
		cs := make([]value, 0, len(xb)+len(yb))
		cs = append(cs, xb...)
		cs = append(cs, yb...)
		return normStr(symStrB{cs})
	}
	return mkSymStr(smt.Concat(strTerm(x), strTerm(y)))
}

// strEqTerm builds the equality term of two string values.
func strEqTerm(x, y value) *smt.Term {
	xb, okx := toB(x)
	yb, oky := toB(y)
	if okx && oky {
		if len(xb) != len(yb) {
			return smt.False
		}
		conj := make([]*smt.Term, 0, len(xb))
		for i := range xb {
			conj = append(conj, smt.Eq(charTerm(xb[i]), charTerm(yb[i])))
		}
		return smt.And(conj...)
	}
	return smt.Eq(strTerm(x), strTerm(y))
}

// strLtTerm: x < y (bytewise)
func strLtTerm(x, y value) *smt.Term {
	xb, okx := toB(x)
	yb, oky := toB(y)
	if okx && oky {
		// lexicographic: exists i: prefix equal and x[i]<y[i]; or x proper prefix of y
		var res *smt.Term
		n := len(xb)
		if len(yb) < n {
			n = len(yb)
		}
		if len(xb) < len(yb) {
			res = smt.True
		} else {
			res = smt.False
		}
		for i := n - 1; i >= 0; i-- {
			xi, yi := charTerm(xb[i]), charTerm(yb[i])
			res = smt.Or(smt.Lt(xi, yi), smt.And(smt.Eq(xi, yi), res))
		}
		return res
	}
	return smt.StrLt(strTerm(x), strTerm(y))
}

func symStringBinop(op token.Token, x, y value) value {
	switch op {
	case token.ADD:
		return strConcat(x, y)
	case token.EQL:
		return mkBool(strEqTerm(x, y))
	case token.NEQ:
		return mkBool(smt.Not(strEqTerm(x, y)))
	case token.LSS:
		return mkBool(strLtTerm(x, y))
	case token.GTR:
		return mkBool(strLtTerm(y, x))
	case token.LEQ:
		return mkBool(smt.Not(strLtTerm(y, x)))
	case token.GEQ:
		return mkBool(smt.Not(strLtTerm(x, y)))
	}
	panic(unsupported(fmt.Sprintf("string binop %s on symbolic operands", op)))
}

func pow2(bits int) *smt.Term {
	if bits == 64 {
		// 2^64 does not fit int64: callers avoid mod for 64-bit unsigned (treated with obligation)
		panic("pow2(64)")
	}
	return smt.IntC(int64(1) << uint(bits))
}

// wrapKind normalises the mathematical result r of an operation at kind k:
// unsigned (<64 bits): mod 2^w; otherwise records an in-range obligation.
func (fr *frame) wrapKind(r *smt.Term, k types.BasicKind) value {
	if r.IsConst {
		bits, signed := kindBits(k)
		if !signed && bits < 64 {
			m := int64(1) << uint(bits)
			v := r.I % m
			if v < 0 {
				v += m
			}
			return mkInt(k, v)
		}
		return mkInt(k, r.I)
	}
	bits, signed := kindBits(k)
	if !signed && bits < 64 {
		return symInt{smt.Mod(r, pow2(bits)), k}
	}
	var lo, hi *smt.Term
	if signed {
		if bits == 64 {
			lo, hi = smt.IntC(-1<<63), smt.IntC(1<<63-1)
		} else {
			lo, hi = smt.IntC(-(int64(1) << uint(bits-1))), smt.IntC(int64(1)<<uint(bits-1)-1)
		}
	} else {
		lo, hi = smt.IntC(0), smt.IntC(1<<63-1) // uint64 modelled up to MaxInt64
	}
	fr.run().addRangeObligation(smt.And(smt.Le(lo, r), smt.Le(r, hi)))
	return symInt{r, k}
}

func (fr *frame) symIntBinop(op token.Token, x, y value) value {
	k := kindOfValue(x)
	if _, ok := x.(symInt); !ok {
		k = kindOfValue(y)
	}
	a, b := intTerm(x), intTerm(y)
	switch op {
	case token.ADD:
		return fr.wrapKind(smt.Add(a, b), k)
	case token.SUB:
		return fr.wrapKind(smt.Sub(a, b), k)
	case token.MUL:
		return fr.wrapKind(smt.Mul(a, b), k)
	case token.QUO, token.REM:
		// division by zero panics
		if !fr.truth(mkBool(smt.Not(smt.Eq(b, smt.IntC(0))))) {
			panic(runtimeError("integer divide by zero"))
		}
		// Go truncates toward zero; SMT div floors (for positive divisor). Handle non-negative a only,
		// otherwise concretise.
		nonneg := smt.And(smt.Le(smt.IntC(0), a), smt.Lt(smt.IntC(0), b))
		if !fr.truth(mkBool(nonneg)) {
			panic(unsupported("symbolic division with negative operand"))
		}
		if op == token.QUO {
			return mkSymInt(smt.Div(a, b), k)
		}
		return mkSymInt(smt.Mod(a, b), k)
	case token.EQL:
		return mkBool(smt.Eq(a, b))
	case token.NEQ:
		return mkBool(smt.Not(smt.Eq(a, b)))
	case token.LSS:
		return mkBool(smt.Lt(a, b))
	case token.LEQ:
		return mkBool(smt.Le(a, b))
	case token.GTR:
		return mkBool(smt.Lt(b, a))
	case token.GEQ:
		return mkBool(smt.Le(b, a))
	case token.AND, token.OR, token.XOR, token.AND_NOT, token.SHL, token.SHR:
		// bit operations: concretise the symbolic operand(s) by forking on feasible values
		xc := fr.concretizeInt(x)
		yc := fr.concretizeInt(y)
		return binop(fr, op, nil, xc, yc)
	}
	panic(unsupported(fmt.Sprintf("int binop %s on symbolic operands", op)))
}

func (fr *frame) symBoolBinop(op token.Token, x, y value) value {
	a, b := boolTerm(x), boolTerm(y)
	switch op {
	case token.EQL:
		return mkBool(smt.Eq(a, b))
	case token.NEQ:
		return mkBool(smt.Not(smt.Eq(a, b)))
	case token.AND:
		return mkBool(smt.And(a, b))
	case token.OR:
		return mkBool(smt.Or(a, b))
	}
	panic(unsupported(fmt.Sprintf("bool binop %s", op)))
}

// symBinop is the entry used by binop when an operand is symbolic.
func (fr *frame) symBinop(op token.Token, t types.Type, x, y value) value {
	switch {
	case isStrValue(x) && isStrValue(y):
		if op == token.LSS || op == token.GTR || op == token.LEQ || op == token.GEQ {
			if ox, oy := fr.run().digestOrd(x), fr.run().digestOrd(y); ox != nil && oy != nil {
				switch op {
				case token.LSS:
					return mkBool(smt.Lt(ox, oy))
				case token.GTR:
					return mkBool(smt.Lt(oy, ox))
				case token.LEQ:
					return mkBool(smt.Le(ox, oy))
				default:
					return mkBool(smt.Le(oy, ox))
				}
			}
		}
		return symStringBinop(op, x, y)
	case isIntValue(x) && isIntValue(y):
		return fr.symIntBinop(op, x, y)
	}
	switch x.(type) {
	case bool, symBool:
		return fr.symBoolBinop(op, x, y)
	}
	panic(unsupported(fmt.Sprintf("binop %s on %T, %T", op, x, y)))
}

// equalsV compares x and y (of static type t) and returns bool or symBool.
func equalsV(t types.Type, x, y value) value {
	if !containsSym(x) && !containsSym(y) {
		return equals(t, x, y)
	}
	return mkBool(eqTerm(t, x, y))
}

func eqTerm(t types.Type, x, y value) *smt.Term {
	switch x := x.(type) {
	case bool, symBool:
		return smt.Eq(boolTerm(x), boolTerm(y))
	case string, symStr, symStrB:
		return strEqTerm(x, y)
	case structure:
		y := y.(structure)
		tS := t.Underlying().(*types.Struct)
		var conj []*smt.Term
		for i := range x {
			if f := tS.Field(i); f.Name() == "_" {
				continue
			}
			conj = append(conj, eqTerm(tS.Field(i).Type(), x[i], y[i]))
		}
		return smt.And(conj...)
	case array:
		y := y.(array)
		tE := t.Underlying().(*types.Array).Elem()
		var conj []*smt.Term
		for i := range x {
			conj = append(conj, eqTerm(tE, x[i], y[i]))
		}
		return smt.And(conj...)
	case iface:
		y := y.(iface)
		if !sameType(x.t, y.t) {
			return smt.False
		}
		if x.t == nil {
			return smt.True
		}
		return eqTerm(x.t, x.v, y.v)
	}
	if isIntValue(x) {
		return smt.Eq(intTerm(x), intTerm(y))
	}
	return smt.BoolC(equals(t, x, y))
}

func (fr *frame) symUnop(op token.Token, x value) value {
	switch x := x.(type) {
	case symBool:
		if op == token.NOT {
			return mkBool(smt.Not(x.t))
		}
	case symInt:
		switch op {
		case token.SUB:
			return fr.wrapKind(smt.Neg(x.t), x.k)
		case token.XOR:
			return unopConcrete(op, fr.concretizeInt(x))
		}
	}
	panic(unsupported(fmt.Sprintf("unop %s on %T", op, x)))
}

// symConv converts symbolic x from t_src to t_dst.
func (fr *frame) symConv(t_dst, t_src types.Type, x value) value {
	ut_src := t_src.Underlying()
	ut_dst := t_dst.Underlying()
	switch x := x.(type) {
	case symInt:
		if db, ok := ut_dst.(*types.Basic); ok {
			if db.Info()&types.IsInteger != 0 {
				return fr.convInt(x, db.Kind())
			}
			if db.Kind() == types.String {
				// string(rune/byte): ASCII only
				if !fr.truth(mkBool(smt.And(smt.Le(smt.IntC(0), x.t), smt.Lt(x.t, smt.IntC(128))))) {
					panic(unsupported("string(non-ASCII symbolic rune)"))
				}
				return symStrB{[]value{symInt{x.t, types.Uint8}}}
			}
		}
	case symStr, symStrB:
		if db, ok := ut_dst.(*types.Basic); ok && db.Kind() == types.String {
			return x
		}
		if ds, ok := ut_dst.(*types.Slice); ok {
			if eb, ok := ds.Elem().Underlying().(*types.Basic); ok {
				switch eb.Kind() {
				case types.Uint8:
					return fr.strToBytes(x)
				case types.Int32:
					bs := fr.strToBytes(x)
					out := make([]value, len(bs))
					for i, b := range bs {
						out[i] = fr.convInt(b, types.Int32)
					}
					return out
				}
			}
		}
	case symBool:
		return x
	}
	_ = ut_src
	panic(unsupported(fmt.Sprintf("conversion of symbolic %T from %s to %s", x, t_src, t_dst)))
}

func (fr *frame) convInt(x value, k types.BasicKind) value {
	sx, ok := x.(symInt)
	if !ok {
		return mkInt(k, asInt64(x))
	}
	sbits, ssigned := kindBits(sx.k)
	dbits, dsigned := kindBits(k)
	// value-preserving cases
	if (ssigned == dsigned && dbits >= sbits) || (!ssigned && dsigned && dbits > sbits) {
		return symInt{sx.t, k}
	}
	return fr.wrapKind(sx.t, k)
}

// strToBytes turns a string value into a []value of bytes (fresh backing array).
// rep A strings are first converted to rep B by forking on their length.
func (fr *frame) strToBytes(x value) []value {
	switch x := x.(type) {
	case string:
		out := make([]value, len(x))
		for i := 0; i < len(x); i++ {
			out[i] = x[i]
		}
		return out
	case symStrB:
		out := make([]value, len(x.cs))
		copy(out, x.cs)
		return out
	case symStr:
		b := fr.strAtoB(x)
		return fr.strToBytes(b)
	}
	panic(fmt.Sprintf("strToBytes: %T", x))
}

// strAtoB converts a rep-A string to rep B by forking on its length.
func (fr *frame) strAtoB(x symStr) value {
	n := fr.concretizeInt(mkSymInt(smt.StrLen(x.t), types.Int)).(int)
	cs := make([]value, n)
	for i := 0; i < n; i++ {
		cs[i] = mkSymInt(smt.ToCode(smt.StrAt(x.t, smt.IntC(int64(i)))), types.Uint8)
	}
	return normStr(symStrB{cs})
}

// bytesToStr: string([]byte)
func bytesToStr(bs []value) value {
	cs := make([]value, len(bs))
	for i, b := range bs {
		switch b := b.(type) {
		case uint8:
			cs[i] = b
		case symInt:
			cs[i] = symInt{b.t, types.Uint8}
		case int32:
			cs[i] = uint8(b)
		default:
			panic(fmt.Sprintf("bytesToStr: %T", b))
		}
	}
	return normStr(symStrB{cs})
}

// strIndex implements s[i].
func (fr *frame) strIndex(s, idx value) value {
	n := strLenValue(s)
	fr.boundsCheck(idx, n, "index")
	switch s := s.(type) {
	case string:
		i := asInt64orU(fr.concretizeInt(idx))
		return s[i]
	case symStrB:
		i := asInt64(fr.concretizeInt(idx))
		return s.cs[i]
	case symStr:
		return mkSymInt(smt.ToCode(smt.StrAt(s.t, intTerm(idx))), types.Uint8)
	}
	panic(fmt.Sprintf("strIndex: %T", s))
}

// boundsCheck panics (target runtime error) on the paths where !(0 <= idx < n).
func (fr *frame) boundsCheck(idx, n value, what string) {
	if !isSym(idx) && !isSym(n) {
		i, l := asInt64(idx), asInt64(n)
		if i < 0 || i >= l {
			panic(runtimeError(fmt.Sprintf("%s out of range [%d] with length %d", what, i, l)))
		}
		return
	}
	ok := smt.And(smt.Le(smt.IntC(0), intTerm(idx)), smt.Lt(intTerm(idx), intTerm(n)))
	if !fr.truth(mkBool(ok)) {
		panic(runtimeError(fmt.Sprintf("%s out of range (symbolic)", what)))
	}
}

// strSlice implements s[lo:hi] on strings.
func (fr *frame) strSlice(s value, lo, hi value) value {
	n := strLenValue(s)
	if lo == nil {
		lo = 0
	}
	if hi == nil {
		hi = n
	}
	if !isSym(lo) && !isSym(hi) && !isSym(n) {
		l, h, ln := asInt64(lo), asInt64(hi), asInt64(n)
		if l < 0 || h < l || h > ln {
			panic(runtimeError(fmt.Sprintf("slice bounds out of range [%d:%d] with length %d", l, h, ln)))
		}
		switch s := s.(type) {
		case string:
			return s[l:h]
		case symStrB:
			return normStr(symStrB{s.cs[l:h]})
		}
	}
	ok := smt.And(smt.Le(smt.IntC(0), intTerm(lo)), smt.Le(intTerm(lo), intTerm(hi)), smt.Le(intTerm(hi), intTerm(n)))
	if !fr.truth(mkBool(ok)) {
		panic(runtimeError("slice bounds out of range (symbolic)"))
	}
	if _, isA := s.(symStr); !isA {
		// rep B / concrete string with symbolic bounds: concretise bounds
		l := asInt64(fr.concretizeInt(lo))
		h := asInt64(fr.concretizeInt(hi))
		return fr.strSlice(s, int(l), int(h))
	}
	return mkSymStr(smt.Substr(strTerm(s), intTerm(lo), smt.Sub(intTerm(hi), intTerm(lo))))
}

// symbolic string iterator (ASCII: one rune per byte)
type symStringIter struct {
	fr *frame
	s  value
	i  int
}

func (it *symStringIter) next() tuple {
	n := strLenValue(it.s)
	more := it.fr.truth(mkBool(smt.Lt(smt.IntC(int64(it.i)), intTerm(n))))
	if !more {
		return tuple{false, nil, nil}
	}
	c := it.fr.strIndex(it.s, it.i)
	r := it.fr.convInt(c, types.Int32)
	if u, ok := c.(uint8); ok && u >= 0x80 {
		panic(unsupported("range over non-ASCII rep-B string"))
	}
	k := it.i
	it.i++
	return tuple{true, k, r}
}
