package interp

// Path exploration: decision vectors, path conditions, assume/assert, worklist.

import (
	"fmt"
	"go/types"
	"os"
	"sort"
	"strings"
	"sync"
	"time"

	"gosym/smt"
)

// ---------------------------------------------------------------------------------
// panics used for control

type unsupportedErr struct{ msg string }

func unsupported(msg string) unsupportedErr { return unsupportedErr{msg} }
func (u unsupportedErr) Error() string      { return "unsupported: " + u.msg }

// runtimeErr is a Go runtime panic raised by the target (recoverable by the target).
type runtimeErr string

func runtimeError(msg string) runtimeErr { return runtimeErr("runtime error: " + msg) }
func (r runtimeErr) Error() string        { return string(r) }

type endKind int

const (
	endDone endKind = iota
	endInfeasible
	endUnsupported
	endBudget
	endPanic
	endDeadlock
	endViolationStop
	endCrash // simulated process crash (sym.RunToCrash)
)

func (k endKind) String() string {
	return [...]string{"done", "infeasible", "unsupported", "budget", "panic", "deadlock", "violation-stop", "crash"}[k]
}

// pathEnd aborts the current path (engine-level, never visible to the target).
type pathEnd struct {
	kind endKind
	msg  string
}

// isEngineAbort reports whether a recovered panic value must not be handled by target defers.
func isEngineAbort(p any) bool {
	switch p.(type) {
	case pathEnd, unsupportedErr, goroutineKill, crashNow:
		return true
	}
	return false
}

// ---------------------------------------------------------------------------------

type Decision struct {
	C   int   `json:"c"`
	Aux int64 `json:"aux,omitempty"`
	N   int   `json:"n,omitempty"` // number of alternatives (0 = symbolic bool branch)
}

type Violation struct {
	ID      string            `json:"id"`
	Kind    string            `json:"kind"` // assert | panic | deadlock | overflow | race
	Msg     string            `json:"msg,omitempty"`
	Entry   string            `json:"entry"`
	Model   map[string]any    `json:"model"`
	Notes   map[string]string `json:"notes,omitempty"`
	Trace   []Decision        `json:"decisions"`
	Sched   []string          `json:"schedule,omitempty"`
	PathLen int               `json:"path_len"`
	Class   string            `json:"class,omitempty"` // known-finding classification key
}

type AssertStat struct {
	Checked    int
	Discharged int
	Violated   int
	Unknown    int
	Trivial    int // condition concretely true
}

type Options struct {
	SolverCmd     []string
	Workers       int
	MaxPaths      int
	MaxSteps      int // instruction budget per path
	TimeBudget    time.Duration
	MaxViolations int // per assertion id
	Trace         bool
	Verbose       bool
	ExploreSched  bool // explore goroutine schedules
	Preemptions   int  // preemption bound
	SolverLog     string
}

// Explorer is shared by all workers exploring one harness entry.
type Explorer struct {
	Opts  Options
	Entry string

	mu       sync.Mutex
	cond     *sync.Cond
	work     [][]Decision
	idle     int
	stopped  bool
	stopWhy  string
	deadline time.Time

	Paths       int
	Ends        map[string]int
	Forks       int
	Asserts     map[string]*AssertStat
	Reached     map[string]int
	Violations  []*Violation
	violCount   map[string]int
	Unsupported map[string]int
	Budget      int
	UnknownBr   int
	Solver      smt.Stats
	Steps       int64
	Samples     []map[string]any
	Intercepts  map[string]int
	KnownHits   map[string]int
	seedOnly    bool
	Transcript  []string // transcript of the first completed path (cross-validation entries are single-path)
}

func NewExplorer(entry string, opts Options) *Explorer {
	e := &Explorer{Opts: opts, Entry: entry,
		Ends: map[string]int{}, Asserts: map[string]*AssertStat{}, Reached: map[string]int{},
		violCount: map[string]int{}, Unsupported: map[string]int{}, Intercepts: map[string]int{}, KnownHits: map[string]int{}}
	e.cond = sync.NewCond(&e.mu)
	e.work = [][]Decision{nil}
	if opts.TimeBudget > 0 {
		e.deadline = time.Now().Add(opts.TimeBudget)
	}
	return e
}

func (e *Explorer) push(prefix []Decision) {
	if e.seedOnly {
		return
	}
	e.mu.Lock()
	e.work = append(e.work, prefix)
	e.mu.Unlock()
	e.cond.Signal()
}

// pop blocks until work is available or exploration is complete.
func (e *Explorer) pop() ([]Decision, bool) {
	e.mu.Lock()
	defer e.mu.Unlock()
	for {
		if e.stopped {
			return nil, false
		}
		if !e.deadline.IsZero() && time.Now().After(e.deadline) {
			e.stopped = true
			e.stopWhy = "time budget exhausted"
			e.cond.Broadcast()
			return nil, false
		}
		if e.Opts.MaxPaths > 0 && e.Paths >= e.Opts.MaxPaths {
			e.stopped = true
			e.stopWhy = fmt.Sprintf("path budget %d exhausted", e.Opts.MaxPaths)
			e.cond.Broadcast()
			return nil, false
		}
		if n := len(e.work); n > 0 {
			p := e.work[n-1]
			e.work = e.work[:n-1]
			return p, true
		}
		e.idle++
		if e.idle == e.Opts.Workers {
			e.stopped = true
			e.cond.Broadcast()
			return nil, false
		}
		e.cond.Wait()
		e.idle--
	}
}

func (e *Explorer) StopReason() string { return e.stopWhy }

// Complete reports whether the whole space was explored.
func (e *Explorer) Complete() bool { return e.stopWhy == "" }

// ---------------------------------------------------------------------------------
// per-path state

type symVar struct {
	name string
	sort smt.Sort
	term *smt.Term
	kind string // bool,int,string,stringN,choice
}

type runState struct {
	ex     *Explorer
	w      *Worker
	prefix []Decision
	pos    int
	trace  []Decision
	pc     []*smt.Term
	vars   []symVar
	varIdx map[string]int
	// concrete choices recorded for the model (Choice, lengths)
	choices  map[string]int64
	rangeObl []*smt.Term
	steps    int
	freshCtr int
	notes    map[string]string
	unknowns int
	sched    *scheduler
	hashApps []hashApp
	fs       *modelFS
	flags    map[string]int64
	objs     map[string]any
	schedLog []string
	pinned   map[string]int64 // Int variables concretised on this path
	mapOrder bool
	noPanicOK bool // harness allows target panics to end a path silently
	icounts   map[string]int
	initPhase bool
	callCounts map[string]int
	sepFree    map[string]bool // SMT variables known to contain no path separator (digests)
	class      string          // classification of the next violation, set by the harness (sym.Class)
	transcript []string
}

func newSolver(cmd []string) (*smt.Solver, error) { return smt.NewSolver(cmd...) }

func (r *runState) addRangeObligation(t *smt.Term) {
	if t.IsTrue() {
		return
	}
	r.rangeObl = append(r.rangeObl, t)
}

func (r *runState) fresh(prefix string) string {
	r.freshCtr++
	return fmt.Sprintf("%s!%d", prefix, r.freshCtr)
}

func (r *runState) declare(name string, sort smt.Sort, kind string) *smt.Term {
	if i, ok := r.varIdx[name]; ok {
		return r.vars[i].term
	}
	t := smt.Var(smtName(name), sort)
	r.varIdx[name] = len(r.vars)
	r.vars = append(r.vars, symVar{name, sort, t, kind})
	r.w.solver.Declare(t.Name, sort)
	return t
}

func smtName(name string) string {
	// |...| quoted symbol; strip characters not allowed inside
	name = strings.NewReplacer("|", "_", "\\", "_").Replace(name)
	return "|" + name + "|"
}

func (r *runState) assertPC(t *smt.Term) {
	if t.IsTrue() {
		return
	}
	r.pc = append(r.pc, t)
	r.w.solver.Assert(t)
}

func (r *runState) check(extra *smt.Term) smt.Result {
	if r.w.solver.Dead {
		panic(pathEnd{endUnsupported, "solver process died or exceeded its hard time limit (path abandoned, inconclusive)"})
	}
	res := r.w.solver.Check(extra)
	if r.w.solver.Dead {
		r.unknowns++
		panic(pathEnd{endUnsupported, "solver process died or exceeded its hard time limit (path abandoned, inconclusive)"})
	}
	if res == smt.Sat && extra != nil {
		r.w.solver.PopQuery()
	}
	if res == smt.Unknown {
		r.unknowns++
	}
	return res
}

func (r *runState) replaying() bool { return r.pos < len(r.prefix) }

func (r *runState) alt(c int, aux int64, n int) []Decision {
	p := make([]Decision, len(r.trace)+1)
	copy(p, r.trace)
	p[len(r.trace)] = Decision{C: c, Aux: aux, N: n}
	return p
}

// branch decides a symbolic boolean; forks when both sides are feasible.
func (r *runState) branch(c *smt.Term) bool {
	if c.IsConst {
		return c.B
	}
	if r.replaying() {
		d := r.prefix[r.pos]
		r.pos++
		if d.N != 0 {
			panic(pathEnd{endUnsupported, fmt.Sprintf("replay divergence: expected bool branch, prefix has choice(%d)", d.N)})
		}
		r.trace = append(r.trace, d)
		if d.C == 0 {
			r.assertPC(c)
			return true
		}
		r.assertPC(smt.Not(c))
		return false
	}
	r.ex.mu.Lock()
	r.ex.Forks++
	r.ex.mu.Unlock()
	resT := r.check(c)
	if resT == smt.Unsat {
		r.trace = append(r.trace, Decision{C: 1})
		r.assertPC(smt.Not(c))
		return false
	}
	resF := r.check(smt.Not(c))
	if resF != smt.Unsat {
		if resT == smt.Unknown && resF == smt.Sat {
			// prefer the side known to be satisfiable; keep the unknown side as alternative
			r.ex.push(r.alt(0, 0, 0))
			r.trace = append(r.trace, Decision{C: 1})
			r.assertPC(smt.Not(c))
			return false
		}
		r.ex.push(r.alt(1, 0, 0))
	}
	r.trace = append(r.trace, Decision{C: 0})
	r.assertPC(c)
	return true
}

// choose makes an n-way choice that needs no solver (all alternatives feasible).
func (r *runState) choose(n int) int {
	if n <= 1 {
		return 0
	}
	if r.replaying() {
		d := r.prefix[r.pos]
		r.pos++
		if d.N != n {
			panic(pathEnd{endUnsupported, fmt.Sprintf("replay divergence: choice(%d) vs prefix %+v", n, d)})
		}
		r.trace = append(r.trace, d)
		return d.C
	}
	for i := n - 1; i >= 1; i-- {
		r.ex.push(r.alt(i, 0, n))
	}
	r.trace = append(r.trace, Decision{C: 0, N: n})
	return 0
}

// concretize returns a concrete value for Int term t, forking over all feasible values.
func (r *runState) concretize(t *smt.Term) int64 {
	if t.IsConst {
		return t.I
	}
	// a variable already pinned on this path needs no solver call (and no decision)
	if t.Op == "var" {
		if v, ok := r.pinned[t.Name]; ok {
			return v
		}
	}
	pin := func(v int64) int64 {
		if t.Op == "var" {
			if r.pinned == nil {
				r.pinned = map[string]int64{}
			}
			r.pinned[t.Name] = v
		}
		return v
	}
	for {
		if r.replaying() {
			d := r.prefix[r.pos]
			r.pos++
			if d.N != -1 {
				panic(pathEnd{endUnsupported, "replay divergence: expected concretisation"})
			}
			r.trace = append(r.trace, d)
			eq := smt.Eq(t, smt.IntC(d.Aux))
			if d.C == 0 {
				r.assertPC(eq)
				return pin(d.Aux)
			}
			r.assertPC(smt.Not(eq))
			continue
		}
		res := r.w.solver.Check(nil)
		if res == smt.Unsat {
			// the alternative "some other value" was queued on an inconclusive answer and turns out empty
			panic(pathEnd{endInfeasible, "concretize: no further value"})
		}
		if res != smt.Sat {
			r.unknowns++
			panic(pathEnd{endUnsupported, "concretize: path condition not sat (" + res.String() + ")"})
		}
		v, err := r.w.solver.GetValue(t)
		if err != nil {
			panic(pathEnd{endUnsupported, "concretize: " + err.Error()})
		}
		eq := smt.Eq(t, v)
		if r.check(smt.Not(eq)) != smt.Unsat {
			r.ex.push(r.alt(1, v.I, -1))
		}
		r.trace = append(r.trace, Decision{C: 0, Aux: v.I, N: -1})
		r.assertPC(eq)
		return pin(v.I)
	}
}

func (fr *frame) run() *runState { return fr.i.cur }

// truth converts bool/symBool into a Go bool, forking if needed.
func (fr *frame) truth(v value) bool {
	switch v := v.(type) {
	case bool:
		return v
	case symBool:
		return fr.run().branch(v.t)
	}
	panic(fmt.Sprintf("truth: %T", v))
}

func (fr *frame) concretizeInt(v value) value {
	s, ok := v.(symInt)
	if !ok {
		return v
	}
	return mkInt(s.k, fr.run().concretize(s.t))
}

// ---------------------------------------------------------------------------------
// models

func (r *runState) modelJSON(m smt.Model) map[string]any {
	out := map[string]any{}
	for _, v := range r.vars {
		c := m[v.term.Name]
		if c == nil {
			continue
		}
		switch v.sort {
		case smt.SBool:
			out[v.name] = c.B
		case smt.SInt:
			out[v.name] = c.I
		default:
			out[v.name] = c.S
		}
	}
	for k, v := range r.choices {
		out[k] = v
	}
	return out
}

func (r *runState) getModel() (smt.Model, error) {
	vars := map[string]smt.Sort{}
	for _, v := range r.vars {
		vars[v.term.Name] = v.sort
	}
	return r.w.solver.GetModel(vars)
}

func (r *runState) report(v *Violation) {
	v.Entry = r.ex.Entry
	v.Trace = append([]Decision(nil), r.trace...)
	v.PathLen = len(r.pc)
	if len(r.notes) > 0 {
		v.Notes = map[string]string{}
		for k, x := range r.notes {
			v.Notes[k] = x
		}
	}
	v.Sched = append([]string(nil), r.schedLog...)
	if v.Class == "" && r.class != "" {
		v.Class = r.class
	}
	if v.Class == "" {
		// schedule-dependent violations are classified by the operation before which the first
		// preemption happened (the window that was hit)
		for _, step := range r.schedLog {
			if i := strings.Index(step, ") before "); strings.HasPrefix(step, "preempt ") && i > 0 {
				v.Class = "preempt-before-" + strings.ReplaceAll(step[i+len(") before "):], " ", "-")
				break
			}
		}
	}
	e := r.ex
	e.mu.Lock()
	defer e.mu.Unlock()
	key := v.ID + "|" + v.Class
	e.violCount[key]++
	if e.Opts.MaxViolations > 0 && e.violCount[key] > e.Opts.MaxViolations {
		return
	}
	e.Violations = append(e.Violations, v)
}

// checkAssert implements sym.Assert.
func (r *runState) checkAssert(cond value, id string) {
	e := r.ex
	stat := func() *AssertStat {
		s := e.Asserts[id]
		if s == nil {
			s = &AssertStat{}
			e.Asserts[id] = s
		}
		return s
	}
	switch c := cond.(type) {
	case bool:
		e.mu.Lock()
		s := stat()
		s.Checked++
		if c {
			s.Trivial++
			s.Discharged++
		} else {
			s.Violated++
		}
		e.mu.Unlock()
		if !c {
			v := &Violation{ID: id, Kind: "assert", Model: map[string]any{}}
			res := smt.Sat
			if len(r.pc) > 0 {
				res = r.check(nil)
			}
			if res == smt.Sat {
				if len(r.pc) > 0 {
					if m, err := r.getModel(); err == nil {
						v.Model = r.modelJSON(m)
					}
				} else {
					for k, x := range r.choices {
						v.Model[k] = x
					}
				}
				r.report(v)
			} else {
				// the path condition could not be shown satisfiable: not a counterexample
				e.mu.Lock()
				s := stat()
				s.Violated--
				s.Unknown++
				e.mu.Unlock()
			}
			panic(pathEnd{endViolationStop, id})
		}
	case symBool:
		res := r.w.solver.Check(smt.Not(c.t))
		e.mu.Lock()
		s := stat()
		s.Checked++
		switch res {
		case smt.Unsat:
			s.Discharged++
		case smt.Sat:
			s.Violated++
		default:
			s.Unknown++
		}
		e.mu.Unlock()
		if res == smt.Sat {
			v := &Violation{ID: id, Kind: "assert"}
			m, err := r.getModel()
			r.w.solver.PopQuery()
			if err == nil {
				v.Model = r.modelJSON(m)
			} else {
				v.Msg = "model extraction failed: " + err.Error()
			}
			r.report(v)
		}
		if res == smt.Unknown {
			r.unknowns++
		}
		// continue under the assumption that the assertion holds
		if r.check(c.t) == smt.Unsat {
			panic(pathEnd{endViolationStop, id})
		}
		r.assertPC(c.t)
	default:
		panic(fmt.Sprintf("checkAssert: %T", cond))
	}
}

func (r *runState) assume(cond value) {
	switch c := cond.(type) {
	case bool:
		if !c {
			panic(pathEnd{endInfeasible, "assume(false)"})
		}
	case symBool:
		if r.replaying() {
			// assumptions are not decisions; they are re-asserted during replay
			r.assertPC(c.t)
			return
		}
		res := r.check(c.t)
		if res == smt.Unsat {
			panic(pathEnd{endInfeasible, "assumption unsatisfiable"})
		}
		r.assertPC(c.t)
	}
}

// finalChecks runs the batched integer-range obligations at path end.
func (r *runState) finalChecks() {
	if len(r.rangeObl) == 0 {
		return
	}
	var neg []*smt.Term
	for _, o := range r.rangeObl {
		neg = append(neg, smt.Not(o))
	}
	res := r.w.solver.Check(smt.Or(neg...))
	e := r.ex
	e.mu.Lock()
	s := e.Asserts["implicit.int-range"]
	if s == nil {
		s = &AssertStat{}
		e.Asserts["implicit.int-range"] = s
	}
	s.Checked++
	switch res {
	case smt.Unsat:
		s.Discharged++
	case smt.Sat:
		s.Violated++
	default:
		s.Unknown++
	}
	e.mu.Unlock()
	if res == smt.Sat {
		v := &Violation{ID: "implicit.int-range", Kind: "overflow"}
		if m, err := r.getModel(); err == nil {
			v.Model = r.modelJSON(m)
		}
		r.w.solver.PopQuery()
		r.report(v)
	}
}

// ---------------------------------------------------------------------------------
// worker

type Worker struct {
	id     int
	i      *interpreter
	solver *smt.Solver
}

func (e *Explorer) sample(r *runState, end endKind) {
	// keep a few path samples with a model for evidence
	e.mu.Lock()
	n := len(e.Samples)
	e.mu.Unlock()
	if n >= 5 || end != endDone {
		return
	}
	if r.w.solver.Check(nil) != smt.Sat {
		return
	}
	m, err := r.getModel()
	if err != nil {
		return
	}
	s := map[string]any{"entry": e.Entry, "model": r.modelJSON(m), "decisions": len(r.trace), "pc_conjuncts": len(r.pc)}
	e.mu.Lock()
	if len(e.Samples) < 5 {
		e.Samples = append(e.Samples, s)
	}
	e.mu.Unlock()
}

// RunWorker explores paths until the work list is exhausted.
func (e *Explorer) RunWorker(w *Worker, entryFn func(w *Worker)) {
	for {
		prefix, ok := e.pop()
		if !ok {
			return
		}
		e.runPath(w, prefix, entryFn)
	}
}

func (e *Explorer) runPath(w *Worker, prefix []Decision, entryFn func(w *Worker)) {
	w.solver.Reset()
	r := &runState{ex: e, w: w, prefix: prefix, varIdx: map[string]int{}, choices: map[string]int64{},
		notes: map[string]string{}, flags: map[string]int64{}, objs: map[string]any{}, sepFree: map[string]bool{}}
	w.i.cur = r
	w.i.resetGlobals()
	end := pathEnd{kind: endDone}
	func() {
		defer func() {
			if p := recover(); p != nil {
				switch p := p.(type) {
				case pathEnd:
					end = p
				case unsupportedErr:
					end = pathEnd{endUnsupported, p.msg}
				default:
					// interpreter crash: treat as unsupported (fail closed), keep message
					end = pathEnd{endUnsupported, fmt.Sprintf("interpreter panic: %v", p)}
					if e.Opts.Verbose {
						fmt.Fprintf(os.Stderr, "interpreter panic on path %v: %v\n", r.trace, p)
					}
				}
			}
		}()
		entryFn(w)
	}()
	if r.sched != nil {
		r.sched.killAll()
	}
	if end.kind == endDone || end.kind == endCrash {
		func() {
			defer func() { recover() }()
			r.finalChecks()
		}()
	}
	if (end.kind == endPanic && !r.noPanicOK) || end.kind == endDeadlock {
		func() {
			defer func() { recover() }()
			v := &Violation{ID: "implicit." + end.kind.String(), Kind: end.kind.String(), Msg: end.msg, Model: map[string]any{}}
			if r.w.solver.Check(nil) == smt.Sat {
				if m, err := r.getModel(); err == nil {
					v.Model = r.modelJSON(m)
				}
			}
			r.report(v)
		}()
	}
	e.sample(r, end.kind)
	e.mu.Lock()
	if len(r.transcript) > 0 && e.Transcript == nil && end.kind == endDone {
		e.Transcript = r.transcript
	}
	for k, n := range r.icounts {
		e.Intercepts[k] += n
	}
	e.Paths++
	e.Ends[end.kind.String()]++
	e.Steps += int64(r.steps)
	e.UnknownBr += r.unknowns
	switch end.kind {
	case endUnsupported:
		key := end.msg
		if i := strings.Index(key, "\n"); i > 0 {
			if len(e.Unsupported) < 3 {
				fmt.Fprintln(os.Stderr, "gosym: unsupported path detail:", key)
			}
			key = key[:i]
		}
		e.Unsupported[key]++
	case endBudget:
		e.Budget++
	}
	e.Solver.Add(&w.solver.Stats)
	w.solver.Stats = smt.Stats{}
	e.mu.Unlock()
	if e.Opts.Verbose && (end.kind == endUnsupported || end.kind == endBudget) {
		fmt.Fprintf(os.Stderr, "[%s] path end %s: %s (decisions %d)\n", e.Entry, end.kind, end.msg, len(r.trace))
	}
	w.i.cur = nil
}

// Summary helpers

func (e *Explorer) SortedAssertIDs() []string {
	var ids []string
	for id := range e.Asserts {
		ids = append(ids, id)
	}
	sort.Strings(ids)
	return ids
}

var _ = types.Int

// Tier is the verification tier ("quick"/"thorough") visible to harnesses via sym.Tier().
var Tier = "quick"

// SeedOnly restricts exploration to the single path described by the decision vector.
func (e *Explorer) SeedOnly(trace []Decision) {
	e.work = [][]Decision{trace}
	e.seedOnly = true
}

func (w *Worker) SetSolverLog(f *os.File) { w.solver.Log = f }
