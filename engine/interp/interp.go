// Copyright 2013 The Go Authors. All rights reserved.
// Use of this source code is governed by a BSD-style
// license that can be found in the LICENSE file.

// Package ssa/interp defines an interpreter for the SSA
// representation of Go programs.
//
// This interpreter is provided as an adjunct for testing the SSA
// construction algorithm.  Its purpose is to provide a minimal
// metacircular implementation of the dynamic semantics of each SSA
// instruction.  It is not, and will never be, a production-quality Go
// interpreter.
//
// The following is a partial list of Go features that are currently
// unsupported or incomplete in the interpreter.
//
// * Unsafe operations, including all uses of unsafe.Pointer, are
// impossible to support given the "boxed" value representation we
// have chosen.
//
// * The reflect package is only partially implemented.
//
// * The "testing" package is no longer supported because it
// depends on low-level details that change too often.
//
// * "sync/atomic" operations are not atomic due to the "boxed" value
// representation: it is not possible to read, modify and write an
// interface value atomically. As a consequence, Mutexes are currently
// broken.
//
// * recover is only partially implemented.  Also, the interpreter
// makes no attempt to distinguish target panics from interpreter
// crashes.
//
// * the sizes of the int, uint and uintptr types in the target
// program are assumed to be the same as those of the interpreter
// itself.
//
// * all values occupy space, even those of types defined by the spec
// to have zero size, e.g. struct{}.  This can cause asymptotic
// performance degradation.
//
// * os.Exit is implemented using panic, causing deferred functions to
// run.
package interp // import "golang.org/x/tools/go/ssa/interp"

import (
	"fmt"
	"go/token"
	"go/types"
	"log"
	"os"
	"runtime"
	"slices"
	"strings"

	"golang.org/x/tools/go/ssa"
)

type continuation int

const (
	kNext continuation = iota
	kReturn
	kJump
)

// Mode is a bitmask of options affecting the interpreter.
type Mode uint

const (
	DisableRecover Mode = 1 << iota // Disable recover() in target programs; show interpreter crash instead.
	EnableTracing                   // Print a trace of all instructions as they are interpreted.
)

type methodSet map[string]*ssa.Function

// State shared between all interpreted goroutines.
type interpreter struct {
	osArgs             []value                // the value of os.Args
	prog               *ssa.Program           // the SSA program
	globals            map[*ssa.Global]*value // addresses of global variables (immutable)
	mode               Mode                   // interpreter options
	reflectPackage     *ssa.Package           // the fake reflect package
	errorMethods       methodSet              // the method set of reflect.error, which implements the error interface.
	rtypeMethods       methodSet              // the method set of rtype, which implements the reflect.Type interface.
	runtimeErrorString types.Type             // the runtime.errorString type (iff "runtime" is present)
	sizes              types.Sizes            // the effective type-sizing function
	goroutines         int32                  // atomically updated

	cur          *runState               // the path being explored
	baseline     map[*ssa.Global]value   // values after the init phase
	touched      map[*ssa.Global]bool    // globals whose address was taken during this path
	initStores   map[*ssa.Global]bool    // globals assigned by their package init
	initDone     map[*ssa.Package]bool   // packages whose init ran in the init phase
	inInit       bool
	intercepts   map[string]intercept
	icache       map[*ssa.Function]intercept
	Trace        bool
}

type deferred struct {
	fn    value
	args  []value
	instr *ssa.Defer
	tail  *deferred
}

type frame struct {
	g                *gor
	i                *interpreter
	caller           *frame
	fn               *ssa.Function
	block, prevBlock *ssa.BasicBlock
	env              map[ssa.Value]value // dynamic values of SSA variables
	locals           []value
	defers           *deferred
	result           value
	panicking        bool
	panic            any
	phitemps         []value // temporaries for parallel phi assignment
	curInstr         ssa.Instruction
}

func (fr *frame) get(key ssa.Value) value {
	switch key := key.(type) {
	case nil:
		// Hack; simplifies handling of optional attributes
		// such as ssa.Slice.{Low,High}.
		return nil
	case *ssa.Function, *ssa.Builtin:
		return key
	case *ssa.Const:
		return constValue(key)
	case *ssa.Global:
		return fr.i.globalAddr(key)
	}
	if r, ok := fr.env[key]; ok {
		return r
	}
	panic(fmt.Sprintf("get: no value for %T: %v", key, key.Name()))
}

// runDefer runs a deferred call d.
// It always returns normally, but may set or clear fr.panic.
func (fr *frame) runDefer(d *deferred) {
	if fr.i.mode&EnableTracing != 0 {
		fmt.Fprintf(os.Stderr, "%s: invoking deferred function call\n",
			fr.i.prog.Fset.Position(d.instr.Pos()))
	}
	var ok bool
	defer func() {
		if !ok {
			// Deferred call created a new state of panic.
			p := recover()
			if isEngineAbort(p) {
				panic(p)
			}
			fr.panicking = true
			fr.panic = p
		}
	}()
	call(fr.i, fr, d.instr.Pos(), d.fn, d.args)
	ok = true
}

// runDefers executes fr's deferred function calls in LIFO order.
//
// On entry, fr.panicking indicates a state of panic; if
// true, fr.panic contains the panic value.
//
// On completion, if a deferred call started a panic, or if no
// deferred call recovered from a previous state of panic, then
// runDefers itself panics after the last deferred call has run.
//
// If there was no initial state of panic, or it was recovered from,
// runDefers returns normally.
func (fr *frame) runDefers() {
	for d := fr.defers; d != nil; d = d.tail {
		fr.runDefer(d)
	}
	fr.defers = nil
	if fr.panicking {
		panic(fr.panic) // new panic, or still panicking
	}
}

// lookupMethod returns the method set for type typ, which may be one
// of the interpreter's fake types.
func lookupMethod(i *interpreter, typ types.Type, meth *types.Func) *ssa.Function {
	return i.prog.LookupMethod(typ, meth.Pkg(), meth.Name())
}

// visitInstr interprets a single ssa.Instruction within the activation
// record frame.  It returns a continuation value indicating where to
// read the next instruction from.
func visitInstr(fr *frame, instr ssa.Instruction) continuation {
	switch instr := instr.(type) {
	case *ssa.DebugRef:
		// no-op

	case *ssa.UnOp:
		fr.env[instr] = unop(fr, instr, fr.get(instr.X))

	case *ssa.BinOp:
		fr.env[instr] = binop(fr, instr.Op, instr.X.Type(), fr.get(instr.X), fr.get(instr.Y))

	case *ssa.Call:
		fn, args := prepareCall(fr, &instr.Call)
		if fr.i.inInit && fr.fn.Synthetic != "" && strings.HasPrefix(fr.fn.Synthetic, "package init") {
			fr.env[instr] = tolerantCall(fr, instr, fn, args)
		} else {
			fr.env[instr] = call(fr.i, fr, instr.Pos(), fn, args)
		}

	case *ssa.ChangeInterface:
		fr.env[instr] = fr.get(instr.X)

	case *ssa.ChangeType:
		fr.env[instr] = fr.get(instr.X) // (can't fail)

	case *ssa.Convert:
		fr.env[instr] = conv(fr, instr.Type(), instr.X.Type(), fr.get(instr.X))

	case *ssa.SliceToArrayPointer:
		fr.env[instr] = sliceToArrayPointer(instr.Type(), instr.X.Type(), fr.get(instr.X))

	case *ssa.MakeInterface:
		fr.env[instr] = iface{t: instr.X.Type(), v: fr.get(instr.X)}

	case *ssa.Extract:
		fr.env[instr] = fr.get(instr.Tuple).(tuple)[instr.Index]

	case *ssa.Slice:
		fr.env[instr] = slice(fr, fr.get(instr.X), fr.get(instr.Low), fr.get(instr.High), fr.get(instr.Max))

	case *ssa.Return:
		switch len(instr.Results) {
		case 0:
		case 1:
			fr.result = fr.get(instr.Results[0])
		default:
			var res []value
			for _, r := range instr.Results {
				res = append(res, fr.get(r))
			}
			fr.result = tuple(res)
		}
		fr.block = nil
		return kReturn

	case *ssa.RunDefers:
		fr.runDefers()

	case *ssa.Panic:
		panic(targetPanic{fr.get(instr.X)})

	case *ssa.Send:
		fr.chanSend(fr.get(instr.Chan), fr.get(instr.X))

	case *ssa.Store:
		addr := fr.get(instr.Addr).(*value)
		if addr == nil {
			panic(runtimeError("invalid memory address or nil pointer dereference"))
		}
		store(mustDeref(instr.Addr.Type()), addr, fr.get(instr.Val))

	case *ssa.If:
		succ := 1
		if fr.truth(fr.get(instr.Cond)) {
			succ = 0
		}
		fr.prevBlock, fr.block = fr.block, fr.block.Succs[succ]
		return kJump

	case *ssa.Jump:
		fr.prevBlock, fr.block = fr.block, fr.block.Succs[0]
		return kJump

	case *ssa.Defer:
		fn, args := prepareCall(fr, &instr.Call)
		defers := &fr.defers
		if into := fr.get(instr.DeferStack); into != nil {
			defers = into.(**deferred)
		}
		*defers = &deferred{
			fn:    fn,
			args:  args,
			instr: instr,
			tail:  *defers,
		}

	case *ssa.Go:
		fn, args := prepareCall(fr, &instr.Call)
		sch := fr.sched()
		sch.yieldPoint(fr.g, "go")
		pos := fr.i.prog.Fset.Position(instr.Pos())
		i := fr.i
		sch.spawn(i, fmt.Sprintf("%s:%d", shortFile(pos.Filename), pos.Line), func(root *frame) {
			call(i, root, instr.Pos(), fn, args)
		})

	case *ssa.MakeChan:
		fr.env[instr] = fr.run().newChan(instr.Type().Underlying().(*types.Chan).Elem(), int(asInt64(fr.concretizeInt(fr.get(instr.Size)))))

	case *ssa.Alloc:
		var addr *value
		if instr.Heap {
			// new
			addr = new(value)
			fr.env[instr] = addr
		} else {
			// local
			addr = fr.env[instr].(*value)
		}
		*addr = zero(mustDeref(instr.Type()))

	case *ssa.MakeSlice:
		capv := asInt64(fr.concretizeInt(fr.get(instr.Cap)))
		lenv := asInt64(fr.concretizeInt(fr.get(instr.Len)))
		if lenv < 0 || capv < lenv || capv > 1<<24 {
			panic(runtimeError("makeslice: len out of range"))
		}
		slice := make([]value, capv)
		tElt := instr.Type().Underlying().(*types.Slice).Elem()
		for i := range slice {
			slice[i] = zero(tElt)
		}
		fr.env[instr] = slice[:lenv]

	case *ssa.MakeMap:
		fr.env[instr] = makeMap(instr.Type().Underlying().(*types.Map).Key(), 0)

	case *ssa.Range:
		fr.env[instr] = rangeIter(fr, instr, fr.get(instr.X))

	case *ssa.Next:
		fr.env[instr] = fr.get(instr.Iter).(iter).next()

	case *ssa.FieldAddr:
		p := fr.get(instr.X).(*value)
		if p == nil {
			panic(runtimeError("invalid memory address or nil pointer dereference"))
		}
		fr.env[instr] = &(*p).(structure)[instr.Field]

	case *ssa.Field:
		fr.env[instr] = fr.get(instr.X).(structure)[instr.Field]

	case *ssa.IndexAddr:
		x := fr.get(instr.X)
		idx := fr.get(instr.Index)
		switch x := x.(type) {
		case []value:
			fr.boundsCheck(idx, len(x), "index")
			fr.env[instr] = &x[asInt64(fr.concretizeInt(idx))]
		case *value: // *array
			if x == nil {
				panic(runtimeError("invalid memory address or nil pointer dereference"))
			}
			a := (*x).(array)
			fr.boundsCheck(idx, len(a), "index")
			fr.env[instr] = &a[asInt64(fr.concretizeInt(idx))]
		case symBytes:
			// a string-backed byte slice indexed element-wise: materialise the characters (reads only:
			// a store through the returned address does not reach the slice)
			s := normStr(x.s)
			if sa, ok := s.(symStr); ok {
				s = fr.strAtoB(sa)
			}
			cs, ok := toB(s)
			if !ok {
				panic(unsupported(fmt.Sprintf("IndexAddr on byte slice backed by %T", s)))
			}
			elems := append([]value{}, cs...)
			fr.boundsCheck(idx, len(elems), "index")
			fr.env[instr] = &elems[asInt64(fr.concretizeInt(idx))]
		default:
			panic(fmt.Sprintf("unexpected x type in IndexAddr: %T", x))
		}

	case *ssa.Index:
		x := fr.get(instr.X)
		idx := fr.get(instr.Index)

		switch x := x.(type) {
		case array:
			fr.boundsCheck(idx, len(x), "index")
			fr.env[instr] = x[asInt64(fr.concretizeInt(idx))]
		case string, symStr, symStrB:
			fr.env[instr] = fr.strIndex(x, idx)
		default:
			panic(fmt.Sprintf("unexpected x type in Index: %T", x))
		}

	case *ssa.Lookup:
		fr.env[instr] = lookup(fr, instr, fr.get(instr.X), fr.get(instr.Index))

	case *ssa.MapUpdate:
		m := fr.get(instr.Map)
		key := fr.get(instr.Key)
		v := fr.get(instr.Value)
		gm := m.(*gomap)
		if gm != nil {
			fr.sched().recordMapAccess(fr, gm, true, instr.Pos())
		}
		gm.insert(fr, key, v)

	case *ssa.TypeAssert:
		fr.env[instr] = typeAssert(instr, fr.get(instr.X).(iface))

	case *ssa.MakeClosure:
		var bindings []value
		for _, binding := range instr.Bindings {
			bindings = append(bindings, fr.get(binding))
		}
		fr.env[instr] = &closure{instr.Fn.(*ssa.Function), bindings}

	case *ssa.Phi:
		log.Fatal("unreachable") // phis are processed at block entry

	case *ssa.Select:
		var cases []selCase
		for _, state := range instr.States {
			c, _ := fr.get(state.Chan).(*gochan)
			sc := selCase{c: c, isSend: state.Dir == types.SendOnly}
			if state.Send != nil {
				sc.val = fr.get(state.Send)
			}
			cases = append(cases, sc)
		}
		chosen, recv, recvOk := fr.chanSelect(cases, !instr.Blocking)
		r := tuple{chosen, recvOk}
		for i, st := range instr.States {
			if st.Dir == types.RecvOnly {
				var v value
				if i == chosen && recvOk {
					v = recv
				} else {
					v = zero(st.Chan.Type().Underlying().(*types.Chan).Elem())
				}
				r = append(r, v)
			}
		}
		fr.env[instr] = r

	default:
		panic(fmt.Sprintf("unexpected instruction: %T", instr))
	}

	// if val, ok := instr.(ssa.Value); ok {
	// 	fmt.Println(toString(fr.env[val])) // debugging
	// }

	return kNext
}

// prepareCall determines the function value and argument values for a
// function call in a Call, Go or Defer instruction, performing
// interface method lookup if needed.
func prepareCall(fr *frame, call *ssa.CallCommon) (fn value, args []value) {
	v := fr.get(call.Value)
	if call.Method == nil {
		// Function call.
		fn = v
	} else {
		// Interface method invocation.
		recv := v.(iface)
		if recv.t == nil {
			panic("method invoked on nil interface")
		}
		if f := lookupMethod(fr.i, recv.t, call.Method); f == nil {
			// Unreachable in well-typed programs.
			panic(fmt.Sprintf("method set for dynamic type %v does not contain %s", recv.t, call.Method))
		} else {
			fn = f
		}
		args = append(args, recv.v)
	}
	for _, arg := range call.Args {
		args = append(args, fr.get(arg))
	}
	return
}

// call interprets a call to a function (function, builtin or closure)
// fn with arguments args, returning its result.
// callpos is the position of the callsite.
func call(i *interpreter, caller *frame, callpos token.Pos, fn value, args []value) value {
	switch fn := fn.(type) {
	case *ssa.Function:
		if fn == nil {
			panic("call of nil function") // nil of func type
		}
		return callSSA(i, caller, callpos, fn, args, nil)
	case *closure:
		return callSSA(i, caller, callpos, fn.Fn, args, fn.Env)
	case *ssa.Builtin:
		return callBuiltin(caller, fn, args)
	case nativeFunc:
		return fn.fn(caller, args)
	}
	panic(fmt.Sprintf("cannot call %T", fn))
}

func loc(fset *token.FileSet, pos token.Pos) string {
	if pos == token.NoPos {
		return ""
	}
	return " at " + fset.Position(pos).String()
}

// callSSA interprets a call to function fn with arguments args,
// and lexical environment env, returning its result.
// callpos is the position of the callsite.
func callSSA(i *interpreter, caller *frame, callpos token.Pos, fn *ssa.Function, args []value, env []value) value {
	if i.mode&EnableTracing != 0 {
		fset := fn.Prog.Fset
		// TODO(adonovan): fix: loc() lies for external functions.
		fmt.Fprintf(os.Stderr, "Entering %s%s.\n", fn, loc(fset, fn.Pos()))
		suffix := ""
		if caller != nil {
			suffix = ", resuming " + caller.fn.String() + loc(fset, callpos)
		}
		defer fmt.Fprintf(os.Stderr, "Leaving %s%s.\n", fn, suffix)
	}
	fr := &frame{
		i:      i,
		caller: caller, // for panic/recover
		fn:     fn,
	}
	if caller != nil {
		fr.g = caller.g
	}
	if r := i.cur; r != nil && r.callCounts != nil {
		if _, ok := r.callCounts[fn.String()]; ok {
			r.callCounts[fn.String()]++
		}
	}
	if ic := i.lookupIntercept(fn); ic != nil {
		return ic(fr, args)
	}
	return runSSABody(i, fr, fn, args, env)
}

func callSSABody(i *interpreter, caller *frame, callpos token.Pos, fn *ssa.Function, args []value, env []value) value {
	fr := &frame{i: i, caller: caller, fn: fn}
	if caller != nil {
		fr.g = caller.g
	}
	return runSSABody(i, fr, fn, args, env)
}

func runSSABody(i *interpreter, fr *frame, fn *ssa.Function, args []value, env []value) value {
	if fn.Blocks == nil {
		panic(unsupported("no code for function: " + fn.String()))
	}

	// generic function body?
	if fn.TypeParams().Len() > 0 && len(fn.TypeArgs()) == 0 {
		panic("interp requires ssa.BuilderMode to include InstantiateGenerics to execute generics")
	}

	fr.env = make(map[ssa.Value]value)
	fr.block = fn.Blocks[0]
	fr.locals = make([]value, len(fn.Locals))
	for i, l := range fn.Locals {
		fr.locals[i] = zero(mustDeref(l.Type()))
		fr.env[l] = &fr.locals[i]
	}
	for i, p := range fn.Params {
		fr.env[p] = args[i]
	}
	for i, fv := range fn.FreeVars {
		fr.env[fv] = env[i]
	}
	for fr.block != nil {
		runFrame(fr)
	}
	// Destroy the locals to avoid accidental use after return.
	for i := range fn.Locals {
		fr.locals[i] = bad{}
	}
	return fr.result
}

// runFrame executes SSA instructions starting at fr.block and
// continuing until a return, a panic, or a recovered panic.
//
// After a panic, runFrame panics.
//
// After a normal return, fr.result contains the result of the call
// and fr.block is nil.
//
// A recovered panic in a function without named return parameters
// (NRPs) becomes a normal return of the zero value of the function's
// result type.
//
// After a recovered panic in a function with NRPs, fr.result is
// undefined and fr.block contains the block at which to resume
// control.
func runFrame(fr *frame) {
	defer func() {
		if fr.block == nil {
			return // normal return
		}
		if fr.i.mode&DisableRecover != 0 {
			return // let interpreter crash
		}
		p := recover()
		if isEngineAbort(p) {
			panic(p)
		}
		if _, ok := p.(runtime.Error); ok {
			// a host runtime error inside the interpreter is an engine defect, not a target panic
			buf := make([]byte, 16384)
			n := runtime.Stack(buf, false)
			if n > 1200 {
				// skip the recover/panic frames at the top, keep the interesting middle
				buf = append(buf[:0], buf[300:1500]...)
				n = len(buf)
			}
			panic(unsupported(fmt.Sprintf("interpreter runtime error: %v in %s\n%s", p, fr.fn, buf[:n])))
		}
		if re, ok := p.(runtimeErr); ok && !strings.Contains(string(re), " [at ") && fr.curInstr != nil {
			pos := fr.i.prog.Fset.Position(fr.curInstr.Pos())
			p = runtimeErr(fmt.Sprintf("%s [at %s:%d in %s: %s]", string(re), shortFile(pos.Filename), pos.Line, fr.fn.Name(), fr.curInstr))
		}
		fr.panicking = true
		fr.panic = p
		if fr.i.mode&EnableTracing != 0 {
			fmt.Fprintf(os.Stderr, "Panicking: %T %v.\n", fr.panic, fr.panic)
		}
		fr.runDefers()
		fr.block = fr.fn.Recover
	}()

	for {
		if fr.i.mode&EnableTracing != 0 {
			fmt.Fprintf(os.Stderr, ".%s:\n", fr.block)
		}

		nonPhis := executePhis(fr)
		for _, instr := range nonPhis {
			if fr.i.mode&EnableTracing != 0 {
				if v, ok := instr.(ssa.Value); ok {
					fmt.Fprintln(os.Stderr, "\t", v.Name(), "=", instr)
				} else {
					fmt.Fprintln(os.Stderr, "\t", instr)
				}
			}
			if r := fr.i.cur; r != nil {
				r.steps++
				if r.steps > r.ex.Opts.MaxSteps {
					panic(pathEnd{endBudget, fmt.Sprintf("instruction budget %d exhausted in %s", r.ex.Opts.MaxSteps, fr.fn)})
				}
			}
			if fr.i.Trace {
				if v, ok := instr.(ssa.Value); ok {
					fmt.Fprintln(os.Stderr, "\t", fr.fn.Name(), v.Name(), "=", instr)
				} else {
					fmt.Fprintln(os.Stderr, "\t", fr.fn.Name(), instr)
				}
			}
			fr.curInstr = instr
			if visitInstr(fr, instr) == kReturn {
				return
			}
			// Inv: kNext (continue) or kJump (last instr)
		}
	}
}

// executePhis executes the phi-nodes at the start of the current
// block and returns the non-phi instructions.
func executePhis(fr *frame) []ssa.Instruction {
	firstNonPhi := -1
	for i, instr := range fr.block.Instrs {
		if _, ok := instr.(*ssa.Phi); !ok {
			firstNonPhi = i
			break
		}
	}
	// Inv: 0 <= firstNonPhi; every block contains a non-phi.

	nonPhis := fr.block.Instrs[firstNonPhi:]
	if firstNonPhi > 0 {
		phis := fr.block.Instrs[:firstNonPhi]
		// Execute parallel assignment of phis.
		//
		// See "the swap problem" in Briggs et al's "Practical Improvements
		// to the Construction and Destruction of SSA Form" for discussion.
		predIndex := slices.Index(fr.block.Preds, fr.prevBlock)
		fr.phitemps = fr.phitemps[:0]
		for _, phi := range phis {
			phi := phi.(*ssa.Phi)
			if fr.i.mode&EnableTracing != 0 {
				fmt.Fprintln(os.Stderr, "\t", phi.Name(), "=", phi)
			}
			fr.phitemps = append(fr.phitemps, fr.get(phi.Edges[predIndex]))
		}
		for i, phi := range phis {
			fr.env[phi.(*ssa.Phi)] = fr.phitemps[i]
		}
	}
	return nonPhis
}

// doRecover implements the recover() built-in.
func doRecover(caller *frame) value {
	// recover() must be exactly one level beneath the deferred
	// function (two levels beneath the panicking function) to
	// have any effect.  Thus we ignore both "defer recover()" and
	// "defer f() -> g() -> recover()".
	if caller.i.mode&DisableRecover == 0 &&
		caller != nil && !caller.panicking &&
		caller.caller != nil && caller.caller.panicking {
		caller.caller.panicking = false
		p := caller.caller.panic
		caller.caller.panic = nil

		// TODO(adonovan): support runtime.Goexit.
		switch p := p.(type) {
		case targetPanic:
			// The target program explicitly called panic().
			return p.v
		case runtime.Error:
			// The interpreter encountered a runtime error.
			return iface{caller.i.runtimeErrorString, p.Error()}
		case runtimeErr:
			return iface{caller.i.runtimeErrorString, string(p)}
		case string:
			// The interpreter explicitly called panic().
			return iface{caller.i.runtimeErrorString, p}
		default:
			panic(fmt.Sprintf("unexpected panic type %T in target call to recover()", p))
		}
	}
	return iface{}
}


// tolerantCall runs a call made directly from a package initialiser; if the callee cannot be
// executed the result is poisoned instead of aborting the whole init phase.
func tolerantCall(fr *frame, instr *ssa.Call, fn value, args []value) (res value) {
	defer func() {
		if p := recover(); p != nil {
			res = poison{fmt.Sprintf("init-time call %s failed: %v", instr.Call.Value.Name(), p)}
		}
	}()
	return call(fr.i, fr, instr.Pos(), fn, args)
}
