package interp

// Support for driving the CLI query commands (internal/cmd/cmds) without cobra: the Run closures
// of the command variables are located in the package initialiser's SSA and called directly;
// standard output is captured; the graph loader and fatal log calls are environment.

import (
	"fmt"
	"go/token"
	"go/types"

	"golang.org/x/tools/go/ssa"
)

// findCommandRun returns the function stored into field Run of the struct whose address the
// package initialiser stores into global varName.
func findCommandRun(pkg *ssa.Package, varName string) *ssa.Function {
	g, ok := pkg.Members[varName].(*ssa.Global)
	if !ok {
		return nil
	}
	init := pkg.Func("init")
	if init == nil {
		return nil
	}
	var obj ssa.Value
	for _, b := range init.Blocks {
		for _, ins := range b.Instrs {
			if st, ok := ins.(*ssa.Store); ok && st.Addr == g {
				obj = st.Val
			}
		}
	}
	if obj == nil {
		return nil
	}
	for _, b := range init.Blocks {
		for _, ins := range b.Instrs {
			st, ok := ins.(*ssa.Store)
			if !ok {
				continue
			}
			fa, ok := st.Addr.(*ssa.FieldAddr)
			if !ok || fa.X != obj {
				continue
			}
			stt, ok := mustDeref(fa.X.Type()).Underlying().(*types.Struct)
			if !ok || stt.Field(fa.Field).Name() != "Run" {
				continue
			}
			switch v := st.Val.(type) {
			case *ssa.Function:
				return v
			case *ssa.MakeClosure:
				if len(v.Bindings) == 0 {
					return v.Fn.(*ssa.Function)
				}
			case *ssa.ChangeType:
				if f, ok := v.X.(*ssa.Function); ok {
					return f
				}
			}
		}
	}
	return nil
}

func init() {
	// sym.CobraRun(varName, args): run the Run closure of the cobra command variable varName of the calling package
	register(symPkg+"CobraRun", func(fr *frame, a []value) value {
		name := cstr(a[0])
		var pkg *ssa.Package
		for c := fr; c != nil; c = c.caller {
			if c.fn != nil && c.fn.Pkg != nil && c.fn.Pkg.Pkg.Path() != "grog/internal/zzverif/sym" {
				pkg = c.fn.Pkg
				break
			}
		}
		if pkg == nil {
			panic(unsupported("sym.CobraRun: no calling package"))
		}
		fn := findCommandRun(pkg, name)
		if fn == nil {
			panic(unsupported("sym.CobraRun: no Run closure found for " + pkg.Pkg.Path() + "." + name))
		}
		var nilCmd *value
		call(fr.i, fr, token.NoPos, fn, []value{nilCmd, a[1]})
		return nil
	})
	// sym.ExploreSchedules(on): switch schedule exploration off for set-up / follow-up phases of a harness
	// (the default scheduler runs them: lowest-numbered runnable goroutine, timers when nothing else can run)
	register(symPkg+"ExploreSchedules", func(fr *frame, a []value) value {
		if a[0].(bool) {
			fr.run().flags["noExplore"] = 0
		} else {
			fr.run().flags["noExplore"] = 1
		}
		return nil
	})
	register(symPkg+"CaptureStdout", func(fr *frame, a []value) value {
		if a[0].(bool) {
			fr.run().flags["captureStdout"] = 1
		} else {
			fr.run().flags["captureStdout"] = 0
		}
		return nil
	})
	register(symPkg+"TakeStdout", func(fr *frame, a []value) value {
		r := fr.run()
		out, _ := r.objs["stdout"].([]value)
		r.objs["stdout"] = []value(nil)
		return append([]value{}, out...)
	})
	capture := func(fr *frame, format func() value) value {
		r := fr.run()
		if r.flags["captureStdout"] != 0 {
			out, _ := r.objs["stdout"].([]value)
			r.objs["stdout"] = append(out, format())
		}
		return tuple{0, nilErr}
	}
	interceptTable["fmt.Println"] = func(fr *frame, a []value) value {
		return capture(fr, func() value { return fr.sprint(a[0].([]value), true) })
	}
	interceptTable["fmt.Print"] = func(fr *frame, a []value) value {
		return capture(fr, func() value { return fr.sprint(a[0].([]value), false) })
	}
	interceptTable["fmt.Printf"] = func(fr *frame, a []value) value {
		return capture(fr, func() value { return fr.sprintf(a[0], a[1].([]value)) })
	}
	// fatal log calls end the process: modelled as a panic of the interpreted program that a harness may recover
	for _, m := range []string{"Fatalf", "Fatal", "Fatalw", "Fatalln"} {
		m := m
		register("(*go.uber.org/zap.SugaredLogger)."+m, func(fr *frame, a []value) value {
			msg := "fatal log call (process exit)"
			if m == "Fatalf" && len(a) > 1 {
				if f, ok := normStr(a[1]).(string); ok {
					msg = "fatal: " + f
				}
			}
			panic(targetPanic{v: iface{t: types.Typ[types.String], v: msg}})
		})
	}
	// the graph loader is environment for the query commands: the harness package provides the graph
	register("grog/internal/loading.MustLoadGraphForQuery", func(fr *frame, a []value) value {
		for _, p := range []string{"grog/internal/cmd/cmds"} {
			if pkg := fr.i.prog.ImportedPackage(p); pkg != nil {
				if fn := pkg.Func("verifLoadGraph"); fn != nil {
					return call(fr.i, fr, token.NoPos, fn, nil)
				}
			}
		}
		panic(unsupported("loading.MustLoadGraphForQuery: no harness defines verifLoadGraph"))
	})
	register("os.Chdir", func(fr *frame, a []value) value {
		if s, ok := normStr(a[0]).(string); ok {
			fr.run().objs["cwd"] = s
			return nilErr
		}
		panic(unsupported("os.Chdir with a symbolic path"))
	})
	_ = fmt.Sprint
}
