package interp

// Ordered map used for every Go map value. Insertion ordered (deterministic
// iteration), supports keys containing symbolic scalars by linear scan with
// forking on symbolic equality.

import (
	"fmt"
	"go/types"
)

type mapEntry struct {
	key     value
	val     value
	deleted bool
}

type gomap struct {
	keyType types.Type
	entries []*mapEntry
	index   map[any]*mapEntry // concrete hashable keys → entry (by Go equality on a canonical key)
	n       int
	symKeys int // number of live entries whose key contains symbolic parts
	created int // run id in which the map was created (0 = init phase)
}

func makeMap(kt types.Type, reserve int64) value {
	return &gomap{keyType: kt, index: map[any]*mapEntry{}}
}

// canonKey turns a concrete key value into something usable as a host map key.
// ok=false if the key contains symbolic parts.
func canonKey(k value) (any, bool) {
	switch k := k.(type) {
	case structure:
		s := "S{"
		for _, f := range k {
			c, ok := canonKey(f)
			if !ok {
				return nil, false
			}
			s += fmt.Sprintf("%T:%#v;", c, c)
		}
		return s + "}", true
	case array:
		s := "A["
		for _, f := range k {
			c, ok := canonKey(f)
			if !ok {
				return nil, false
			}
			s += fmt.Sprintf("%T:%#v;", c, c)
		}
		return s + "]", true
	case iface:
		if k.t == nil {
			return "I<nil>", true
		}
		c, ok := canonKey(k.v)
		if !ok {
			return nil, false
		}
		return fmt.Sprintf("I<%s>%T:%#v", k.t.String(), c, c), true
	case symInt, symBool, symStr, symStrB:
		if sb, ok := k.(symStrB); ok {
			if s, ok := sb.concrete(); ok {
				return s, true
			}
		}
		return nil, false
	}
	return k, true
}

func (m *gomap) len() int {
	if m == nil {
		return 0
	}
	return m.n
}

// lookupEntry finds the entry for key k. With symbolic keys it forks.
func (m *gomap) lookupEntry(fr *frame, k value) *mapEntry {
	ck, concrete := canonKey(k)
	if concrete {
		if e, ok := m.index[ck]; ok && !e.deleted {
			return e
		}
		if m.symKeys == 0 {
			return nil
		}
	}
	// linear scan with (possibly symbolic) equality
	for _, e := range m.entries {
		if e.deleted {
			continue
		}
		if concrete {
			if _, ec := canonKey(e.key); ec {
				continue // concrete vs concrete already handled through index
			}
		}
		eq := equalsV(m.keyType, k, e.key)
		if fr.truth(eq) {
			return e
		}
	}
	return nil
}

func (m *gomap) lookup(fr *frame, k value) (value, bool) {
	if m == nil {
		return nil, false
	}
	e := m.lookupEntry(fr, k)
	if e == nil {
		return nil, false
	}
	return e.val, true
}

func (m *gomap) insert(fr *frame, k, v value) {
	if m == nil {
		panic(runtimeError("assignment to entry in nil map"))
	}
	if e := m.lookupEntry(fr, k); e != nil {
		e.val = v
		return
	}
	e := &mapEntry{key: k, val: v}
	m.entries = append(m.entries, e)
	m.n++
	if ck, ok := canonKey(k); ok {
		m.index[ck] = e
	} else {
		m.symKeys++
	}
}

func (m *gomap) delete(fr *frame, k value) {
	if m == nil {
		return
	}
	e := m.lookupEntry(fr, k)
	if e == nil {
		return
	}
	e.deleted = true
	m.n--
	if ck, ok := canonKey(e.key); ok {
		delete(m.index, ck)
	} else {
		m.symKeys--
	}
}

type gomapIter struct {
	m     *gomap
	order []*mapEntry
	i     int
}

func (it *gomapIter) next() tuple {
	for it.i < len(it.order) {
		e := it.order[it.i]
		it.i++
		if e.deleted {
			continue
		}
		return tuple{true, e.key, e.val}
	}
	return tuple{false, nil, nil}
}

// clone returns a shallow copy of the map (same keys and values, fresh entry cells).
func (m *gomap) clone(fr *frame) *gomap {
	c := &gomap{keyType: m.keyType, index: map[any]*mapEntry{}, created: m.created}
	for _, e := range m.entries {
		if e.deleted {
			continue
		}
		ne := &mapEntry{key: e.key, val: deepCopy(e.val)}
		c.entries = append(c.entries, ne)
		if ck, ok := canonKey(e.key); ok {
			c.index[ck] = ne
		} else {
			c.symKeys++
		}
		c.n++
	}
	return c
}
