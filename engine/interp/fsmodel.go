package interp

// Model file system behind the os.* / io.* intercepts.
//
// Directories are keyed by concrete clean absolute paths; an entry name inside a
// directory may be symbolic (e.g. a content digest): lookups then fork on name equality.

import (
	"fmt"
	"go/token"
	"go/types"
	"path/filepath"
	"sort"
	"strconv"
	"strings"

	"gosym/smt"
)

const (
	nFile = iota
	nDir
	nLink
)

type fsNode struct {
	kind    int
	content value // string value (files)
	exec    value // bool / symBool: any x bit set
	target  string
	perm    uint32
	mtime   int64 // modification time on the engine's virtual clock (ns); set on creation and by WriteFile / Chtimes
}

type fsEntry struct {
	name value // string value without '/'
	node *fsNode
}

type fsDir struct {
	path    string
	entries []*fsEntry
}

type modelFS struct {
	dirs   map[string]*fsDir
	tmpCtr int
	ops    int
	opLog  []string
}

type openFile struct {
	path    string // printable path
	dir     *fsDir
	ent     *fsEntry
	node    *fsNode
	pos     value // read offset (int value) - only 0 or "all consumed" supported
	eof     bool
	write   bool
	closed  bool
	dirPath string
	rpos    int
}

type crashNow struct{}

func (r *runState) FS() *modelFS {
	if r.fs == nil || r.fs.dirs == nil {
		r.fs = &modelFS{dirs: map[string]*fsDir{"/": {path: "/"}}}
	}
	return r.fs
}

// step is called at the start of every FS operation: crash / fault injection point.
// Returns true if an injected fault should make the operation fail.
func (fr *frame) fsStep(op, path string, fallible bool) bool {
	r := fr.run()
	fs := r.FS()
	fs.ops++
	if r.flags["fsVisible"] != 0 {
		fr.sched().yieldPoint(fr.g, op)
	}
	if len(fs.opLog) < 400 {
		// logged when the operation actually executes (after a possible preemption)
		pid := int64(0)
		if fr.g != nil {
			pid = fr.g.pid
		}
		entry := fmt.Sprintf("%d %s %s", pid, op, path)
		if op == "remove" {
			// which function of the code under test issued the call
			for f := fr.caller; f != nil; f = f.caller {
				if f.fn != nil && f.fn.Pkg != nil && strings.HasPrefix(f.fn.Pkg.Pkg.Path(), "grog/internal/") && !strings.Contains(f.fn.Pkg.Pkg.Path(), "zzverif") {
					entry += " by=" + f.fn.Name()
					break
				}
			}
			// record what the removed file contained (who owned it)
			if d, _, e := fr.fsResolve(path, false); d != nil && e != nil && e.node.kind == nFile {
				if c, ok := normStr(e.node.content).(string); ok {
					entry += " content=" + strconv.Quote(c)
				}
			}
		}
		fs.opLog = append(fs.opLog, entry)
	}
	if fr.g != nil && fr.g.crashArmed > 0 && (r.flags["crashBudgetSet"] == 0 || r.flags["crashBudget"] > 0) {
		if r.choose(2) == 1 {
			if r.flags["crashBudgetSet"] != 0 {
				r.flags["crashBudget"]--
			}
			r.notes["crash-before"] = fmt.Sprintf("op#%d %s %s", fs.ops, op, path)
			panic(crashNow{})
		}
	}
	if fallible && r.flags["faultBudget"] > 0 {
		pref, _ := r.objs["faultPrefix"].(string)
		kinds, _ := r.objs["faultOps"].(string)
		if (pref == "" || strings.HasPrefix(path, pref)) && (kinds == "" || strings.Contains(","+kinds+",", ","+op+",")) {
			if r.choose(2) == 1 {
				r.flags["faultBudget"]--
				r.flags["faultsInjected"]++
				r.notes[fmt.Sprintf("fault#%d", r.flags["faultsInjected"])] = fmt.Sprintf("op#%d %s %s", fs.ops, op, path)
				return true
			}
		}
	}
	return false
}

// ---------------------------------------------------------------------------------
// paths

// splitPath turns a path value into (concrete clean dir, base name value).
func (fr *frame) splitPath(p value) (string, value) {
	p = normStr(p)
	if s, ok := p.(string); ok {
		s = filepath.Clean(s)
		if !filepath.IsAbs(s) {
			s = "/" + s
		}
		if s == "/" {
			return "/", ""
		}
		d, b := filepath.Split(s)
		return filepath.Clean(d), b
	}
	t := strTerm(p)
	var args []*smt.Term
	if t.Op == "str.++" {
		args = t.Args
	} else {
		args = []*smt.Term{t}
	}
	if !args[0].IsConst || !strings.Contains(args[0].S, "/") {
		panic(unsupported("model FS: symbolic path without concrete directory prefix: " + t.String()))
	}
	pre := args[0].S
	i := strings.LastIndex(pre, "/")
	dir := filepath.Clean(pre[:i+1])
	if !filepath.IsAbs(dir) {
		dir = "/" + dir
	}
	rest := append([]*smt.Term{smt.StrC(pre[i+1:])}, args[1:]...)
	base := smt.Concat(rest...)
	// the symbolic tail must not contain a separator (checked once per distinct term)
	key := "fsbase:" + base.String()
	r := fr.run()
	if _, done := r.objs[key]; !done && !r.termSepFree(base) {
		if r.check(smt.Contains(base, smt.StrC("/"))) != smt.Unsat {
			panic(unsupported("model FS: symbolic path component may contain '/': " + base.String()))
		}
		r.objs[key] = true
	}
	return dir, mkSymStr(base)
}

func pathString(dir string, base value) string {
	b := normStr(base)
	if s, ok := b.(string); ok {
		return filepath.Join(dir, s)
	}
	return dir + "/<" + strTerm(b).String() + ">"
}

func (fs *modelFS) dir(path string) *fsDir { return fs.dirs[path] }

// lookup finds the entry named base in dir, forking on symbolic name equality.
func (fr *frame) fsLookup(d *fsDir, base value) *fsEntry {
	base = normStr(base)
	bs, bConcrete := base.(string)
	for _, e := range d.entries {
		en := normStr(e.name)
		if es, ok := en.(string); ok && bConcrete {
			if es == bs {
				return e
			}
			continue
		}
		if fr.run().digestNeverEquals(en, base) || fr.run().digestNeverEquals(base, en) {
			continue
		}
		if fr.truth(mkBool(strEqTerm(en, base))) {
			return e
		}
	}
	return nil
}

// digestNeverEquals: a is a bare digest variable (a lowercase hex string by construction of the
// real hashers) and b is a concrete name that is not a hex string: they cannot be equal.
func (r *runState) digestNeverEquals(a, b value) bool {
	sa, ok := a.(symStr)
	if !ok || sa.t.Op != "var" || !r.sepFree[sa.t.Name] {
		return false
	}
	bs, ok := normStr(b).(string)
	if !ok {
		return false
	}
	if bs == "" {
		return true
	}
	for i := 0; i < len(bs); i++ {
		c := bs[i]
		if !(c >= '0' && c <= '9' || c >= 'a' && c <= 'f') {
			return true
		}
	}
	return false
}

// resolve returns (dir, entry) for a path; dir==nil when the parent directory does not exist.
// Symlinks in the final component are followed when follow is set (one level, concrete targets).
func (fr *frame) fsResolve(p value, follow bool) (*fsDir, value, *fsEntry) {
	fs := fr.run().FS()
	dpath, base := fr.splitPath(p)
	if s, ok := base.(string); ok && s == "" {
		// root
		return fs.dir("/"), base, &fsEntry{name: "", node: &fsNode{kind: nDir}}
	}
	d := fs.dir(dpath)
	if d == nil {
		return nil, base, nil
	}
	e := fr.fsLookup(d, base)
	if e != nil && follow && e.node.kind == nLink {
		t := e.node.target
		if !filepath.IsAbs(t) {
			t = filepath.Join(dpath, t)
		}
		return fr.fsResolve(t, true)
	}
	return d, base, e
}

func (fs *modelFS) removeEntry(d *fsDir, e *fsEntry) {
	for i, x := range d.entries {
		if x == e {
			d.entries = append(d.entries[:i:i], d.entries[i+1:]...)
			return
		}
	}
}

func (fs *modelFS) mkdirAll(path string) {
	path = filepath.Clean(path)
	if fs.dirs[path] != nil {
		return
	}
	parent := filepath.Dir(path)
	fs.mkdirAll(parent)
	fs.dirs[path] = &fsDir{path: path}
	pd := fs.dirs[parent]
	pd.entries = append(pd.entries, &fsEntry{name: filepath.Base(path), node: &fsNode{kind: nDir, perm: 0755}})
}

// removeTree removes directory path and everything below it (bookkeeping of the dirs map).
func (fs *modelFS) removeTree(path string) {
	for p := range fs.dirs {
		if p == path || strings.HasPrefix(p, path+"/") {
			delete(fs.dirs, p)
		}
	}
}

// ---------------------------------------------------------------------------------
// errors

func (fr *frame) errno(n int) value {
	return iface{t: fr.typeOf("syscall", "Errno"), v: uintptr(n)}
}

const (
	eNOENT  = 2
	eIO     = 5
	eEXIST  = 17
	eNOTDIR = 20
	eISDIR  = 21
	eINVAL  = 22
	eNOTEMP = 39
)

func (fr *frame) pathError(op string, path value, errno int) value {
	t := fr.typeOf("io/fs", "PathError")
	cell := new(value)
	*cell = structure{op, path, fr.errno(errno)}
	return iface{t: types.NewPointer(t), v: cell}
}

func (fr *frame) linkError(op string, oldp, newp value, errno int) value {
	t := fr.typeOf("os", "LinkError")
	cell := new(value)
	*cell = structure{op, oldp, newp, fr.errno(errno)}
	return iface{t: types.NewPointer(t), v: cell}
}

// ---------------------------------------------------------------------------------
// handles and infos

func (fr *frame) newFileHandle(of *openFile) value {
	t := fr.typeOf("os", "File")
	cell := new(value)
	*cell = zero(t)
	fr.run().objs[fmt.Sprintf("file:%p", cell)] = of
	return cell
}

func (fr *frame) fileOf(recv value) *openFile {
	p := recv.(*value)
	if p == nil {
		return nil
	}
	of, _ := fr.run().objs[fmt.Sprintf("file:%p", p)].(*openFile)
	return of
}

func (fr *frame) modeValue(n *fsNode) value {
	const modeDir = uint32(1) << 31
	const modeSymlink = uint32(1) << 27
	switch n.kind {
	case nDir:
		return modeDir | 0755
	case nLink:
		return modeSymlink | 0777
	}
	switch x := n.exec.(type) {
	case symBool:
		return symInt{smt.Ite(x.t, smt.IntC(0755), smt.IntC(0644)), types.Uint32}
	case bool:
		if x {
			return uint32(0755)
		}
	}
	return uint32(0644)
}

func (fr *frame) fileInfo(name value, n *fsNode) value {
	t := fr.typeOf("grog/internal/zzverif/fsm", "Info")
	var size value = int64(0)
	if n.kind == nFile {
		size = fr.convInt(strLenValue(normStr(n.content)), types.Int64)
	}
	return iface{t: t, v: structure{name, size, fr.modeValue(n), n.mtime}}
}

// ---------------------------------------------------------------------------------
// intercepts

func errTuple(v value, err value) value { return tuple{v, err} }

func (fr *frame) fsOpen(path value, create, excl, trunc, write bool, op string) (value, value) {
	return fr.fsOpenPerm(path, create, excl, trunc, write, op, 0666)
}

func (fr *frame) fsOpenPerm(path value, create, excl, trunc, write bool, op string, perm uint32) (value, value) {
	if fr.fsStep(op, pathString(fr.splitPath(path)), true) {
		return (*value)(nil), fr.pathError(op, path, eIO)
	}
	d, base, e := fr.fsResolve(path, true)
	if d == nil {
		return (*value)(nil), fr.pathError("open", path, eNOENT)
	}
	if e == nil {
		if !create {
			return (*value)(nil), fr.pathError("open", path, eNOENT)
		}
		// a newly created file gets perm (umask 022): only the executable bits matter to the model
		e = &fsEntry{name: base, node: &fsNode{kind: nFile, content: "", exec: perm&0111 != 0, perm: perm &^ 022, mtime: fr.sched().now}}
		d.entries = append(d.entries, e)
	} else {
		if create && excl {
			return (*value)(nil), fr.pathError("open", path, eEXIST)
		}
		if e.node.kind == nDir && write {
			return (*value)(nil), fr.pathError("open", path, eISDIR)
		}
		if trunc && e.node.kind == nFile {
			e.node.content = ""
		}
	}
	of := &openFile{path: pathString(d.path, base), dir: d, ent: e, node: e.node, write: write}
	if e.node.kind == nDir {
		of.dirPath = filepath.Join(d.path, cstr(e.name))
	}
	return fr.newFileHandle(of), nilErr
}

func init() {
	const (
		oWRONLY = 0x1
		oRDWR   = 0x2
		oCREATE = 0x40
		oEXCL   = 0x80
		oTRUNC  = 0x200
		oAPPEND = 0x400
	)
	register("os.Open", func(fr *frame, a []value) value {
		return errTuple(fr.fsOpen(a[0], false, false, false, false, "open"))
	})
	register("os.Create", func(fr *frame, a []value) value {
		return errTuple(fr.fsOpen(a[0], true, false, true, true, "create"))
	})
	register("os.OpenFile", func(fr *frame, a []value) value {
		fl := asInt64(a[1])
		return errTuple(fr.fsOpenPerm(a[0], fl&oCREATE != 0, fl&oEXCL != 0, fl&oTRUNC != 0, fl&(oWRONLY|oRDWR) != 0, "openfile", uint32(asInt64(fr.concretizeInt(a[2])))))
	})
	register("os.CreateTemp", func(fr *frame, a []value) value {
		fs := fr.run().FS()
		fs.tmpCtr++
		dir := cstr(a[0])
		pat := cstr(a[1])
		name := strings.Replace(pat, "*", fmt.Sprintf("%04d", fs.tmpCtr), 1)
		if !strings.Contains(pat, "*") {
			name = pat + fmt.Sprintf("%04d", fs.tmpCtr)
		}
		return errTuple(fr.fsOpen(filepath.Join(dir, name), true, true, false, true, "createtemp"))
	})
	register("os.MkdirTemp", func(fr *frame, a []value) value {
		fs := fr.run().FS()
		fs.tmpCtr++
		dir := cstr(a[0])
		if dir == "" {
			dir = "/tmp"
		}
		p := filepath.Join(dir, strings.Replace(cstr(a[1]), "*", "", 1)+fmt.Sprintf("%04d", fs.tmpCtr))
		fs.mkdirAll(p)
		return tuple{p, nilErr}
	})
	register("os.ReadFile", func(fr *frame, a []value) value {
		if fr.fsStep("readfile", pathString(fr.splitPath(a[0])), true) {
			return tuple{[]value(nil), fr.pathError("read", a[0], eIO)}
		}
		d, _, e := fr.fsResolve(a[0], true)
		if d == nil || e == nil {
			return tuple{[]value(nil), fr.pathError("open", a[0], eNOENT)}
		}
		if e.node.kind != nFile {
			return tuple{[]value(nil), fr.pathError("read", a[0], eISDIR)}
		}
		c := normStr(e.node.content)
		if _, ok := c.(string); ok {
			return tuple{fr.strToBytes(c), nilErr}
		}
		// symbolic content: immutable string-backed byte slice (no forking on the length)
		return tuple{symBytes{c, nil}, nilErr}
	})
	register("os.WriteFile", func(fr *frame, a []value) value {
		f, err := fr.fsOpenPerm(a[0], true, false, true, true, "writefile", uint32(asInt64(fr.concretizeInt(a[2]))))
		if err.(iface).t != nil {
			return err
		}
		of := fr.fileOf(f)
		of.node.content = bytesArgToStr(a[1])
		of.node.mtime = fr.sched().now
		return nilErr
	})
	register("os.ReadDir", func(fr *frame, a []value) value {
		if fr.fsStep("readdir", pathString(fr.splitPath(a[0])), true) {
			return tuple{[]value(nil), fr.pathError("open", a[0], eIO)}
		}
		d, _, e := fr.fsResolve(a[0], true)
		if d == nil || e == nil {
			return tuple{[]value(nil), fr.pathError("open", a[0], eNOENT)}
		}
		if e.node.kind != nDir {
			return tuple{[]value(nil), fr.pathError("readdirent", a[0], eNOTDIR)}
		}
		sub := fr.run().FS().dir(filepath.Join(d.path, cstr(e.name)))
		return tuple{fr.dirEntries(sub), nilErr}
	})
	stat := func(follow bool, op string) intercept {
		return func(fr *frame, a []value) value {
			if fr.fsStep(op, pathString(fr.splitPath(a[0])), true) {
				return tuple{iface{}, fr.pathError(op, a[0], eIO)}
			}
			d, base, e := fr.fsResolve(a[0], follow)
			if d == nil || e == nil {
				return tuple{iface{}, fr.pathError(op, a[0], eNOENT)}
			}
			return tuple{fr.fileInfo(base, e.node), nilErr}
		}
	}
	register("os.Stat", stat(true, "stat"))
	register("os.Lstat", stat(false, "lstat"))
	register("os.Readlink", func(fr *frame, a []value) value {
		d, _, e := fr.fsResolve(a[0], false)
		if d == nil || e == nil {
			return tuple{"", fr.pathError("readlink", a[0], eNOENT)}
		}
		if e.node.kind != nLink {
			return tuple{"", fr.pathError("readlink", a[0], eINVAL)}
		}
		return tuple{e.node.target, nilErr}
	})
	register("os.Remove", func(fr *frame, a []value) value {
		if fr.fsStep("remove", pathString(fr.splitPath(a[0])), true) {
			return fr.pathError("remove", a[0], eIO)
		}
		fs := fr.run().FS()
		d, _, e := fr.fsResolve(a[0], false)
		if d == nil || e == nil {
			return fr.pathError("remove", a[0], eNOENT)
		}
		if e.node.kind == nDir {
			p := filepath.Join(d.path, cstr(e.name))
			if sub := fs.dir(p); sub != nil && len(sub.entries) > 0 {
				return fr.pathError("remove", a[0], eNOTEMP)
			}
			delete(fs.dirs, p)
		}
		fs.removeEntry(d, e)
		return nilErr
	})
	register("os.RemoveAll", func(fr *frame, a []value) value {
		if fr.fsStep("removeall", pathString(fr.splitPath(a[0])), true) {
			return fr.pathError("removeall", a[0], eIO)
		}
		fs := fr.run().FS()
		d, _, e := fr.fsResolve(a[0], false)
		if d == nil || e == nil {
			return nilErr
		}
		if e.node.kind == nDir {
			fs.removeTree(filepath.Join(d.path, cstr(e.name)))
		}
		fs.removeEntry(d, e)
		return nilErr
	})
	register("os.Rename", func(fr *frame, a []value) value {
		if fr.fsStep("rename", pathString(fr.splitPath(a[1])), true) {
			return fr.linkError("rename", a[0], a[1], eIO)
		}
		fs := fr.run().FS()
		d1, _, e1 := fr.fsResolve(a[0], false)
		if d1 == nil || e1 == nil {
			return fr.linkError("rename", a[0], a[1], eNOENT)
		}
		d2, base2, e2 := fr.fsResolve(a[1], false)
		if d2 == nil {
			return fr.linkError("rename", a[0], a[1], eNOENT)
		}
		if e1.node.kind == nDir {
			panic(unsupported("model FS: rename of a directory"))
		}
		if e2 != nil {
			if e2.node.kind == nDir {
				return fr.linkError("rename", a[0], a[1], eISDIR)
			}
			fs.removeEntry(d2, e2)
		}
		fs.removeEntry(d1, e1)
		d2.entries = append(d2.entries, &fsEntry{name: base2, node: e1.node})
		return nilErr
	})
	register("os.MkdirAll", func(fr *frame, a []value) value {
		p := filepath.Clean(cstr(a[0]))
		if fr.fsStep("mkdirall", p, true) {
			return fr.pathError("mkdir", a[0], eIO)
		}
		fs := fr.run().FS()
		// fail if some prefix is a non-directory
		parts := strings.Split(strings.TrimPrefix(p, "/"), "/")
		cur := "/"
		for _, part := range parts {
			if part == "" {
				continue
			}
			d := fs.dir(cur)
			e := fr.fsLookup(d, part)
			if e != nil && e.node.kind == nLink {
				panic(unsupported("model FS: MkdirAll through a symlink"))
			}
			if e != nil && e.node.kind != nDir {
				return fr.pathError("mkdir", filepath.Join(cur, part), eNOTDIR)
			}
			cur = filepath.Join(cur, part)
			fs.mkdirAll(cur)
		}
		return nilErr
	})
	register("os.Mkdir", func(fr *frame, a []value) value {
		p := filepath.Clean(cstr(a[0]))
		fs := fr.run().FS()
		d, _, e := fr.fsResolve(p, false)
		if d == nil {
			return fr.pathError("mkdir", a[0], eNOENT)
		}
		if e != nil {
			return fr.pathError("mkdir", a[0], eEXIST)
		}
		fs.mkdirAll(p)
		return nilErr
	})
	register("os.Symlink", func(fr *frame, a []value) value {
		if fr.fsStep("symlink", pathString(fr.splitPath(a[1])), true) {
			return fr.linkError("symlink", a[0], a[1], eIO)
		}
		d, base, e := fr.fsResolve(a[1], false)
		if d == nil {
			return fr.linkError("symlink", a[0], a[1], eNOENT)
		}
		if e != nil {
			return fr.linkError("symlink", a[0], a[1], eEXIST)
		}
		d.entries = append(d.entries, &fsEntry{name: base, node: &fsNode{kind: nLink, target: cstr(a[0])}})
		return nilErr
	})
	chmod := func(fr *frame, n *fsNode, mode value) {
		m := uint32(asInt64(fr.concretizeInt(mode)))
		n.perm = m & 0777
		n.exec = m&0111 != 0
	}
	register("os.Chmod", func(fr *frame, a []value) value {
		if fr.fsStep("chmod", pathString(fr.splitPath(a[0])), true) {
			return fr.pathError("chmod", a[0], eIO)
		}
		d, _, e := fr.fsResolve(a[0], true)
		if d == nil || e == nil {
			return fr.pathError("chmod", a[0], eNOENT)
		}
		chmod(fr, e.node, a[1])
		return nilErr
	})
	register("os.Link", func(fr *frame, a []value) value {
		if fr.fsStep("link", pathString(fr.splitPath(a[1])), true) {
			return fr.linkError("link", a[0], a[1], eIO)
		}
		d1, _, e1 := fr.fsResolve(a[0], false)
		if d1 == nil || e1 == nil {
			return fr.linkError("link", a[0], a[1], eNOENT)
		}
		d2, base2, e2 := fr.fsResolve(a[1], false)
		if d2 == nil {
			return fr.linkError("link", a[0], a[1], eNOENT)
		}
		if e2 != nil {
			return fr.linkError("link", a[0], a[1], eEXIST)
		}
		d2.entries = append(d2.entries, &fsEntry{name: base2, node: e1.node}) // same inode
		return nilErr
	})
	register("os.Chtimes", func(fr *frame, a []value) value {
		d, _, e := fr.fsResolve(a[0], true)
		if d == nil || e == nil {
			return fr.pathError("chtimes", a[0], eNOENT)
		}
		e.node.mtime = a[2].(structure)[1].(int64)
		return nilErr
	})
	register("(grog/internal/zzverif/fsm.Info).ModTime", func(fr *frame, a []value) value {
		t := fr.typeOf("time", "Time")
		z := zero(t).(structure)
		z[1] = a[0].(structure)[3]
		return z
	})
	register("os.Getwd", func(fr *frame, a []value) value {
		if s, ok := fr.run().objs["cwd"].(string); ok {
			return tuple{s, nilErr}
		}
		return tuple{"/w", nilErr}
	})
	register("os.IsNotExist", func(fr *frame, a []value) value {
		return fr.errorsIs(a[0].(iface), fr.globalErr("io/fs", "ErrNotExist"))
	})
	register("os.IsExist", func(fr *frame, a []value) value {
		return fr.errorsIs(a[0].(iface), fr.globalErr("io/fs", "ErrExist"))
	})

	// *os.File methods ---------------------------------------------------------------
	register("(*os.File).Close", func(fr *frame, a []value) value {
		of := fr.fileOf(a[0])
		if of == nil {
			return fr.globalErr("os", "ErrInvalid")
		}
		if of.closed {
			return fr.pathError("close", of.path, eINVAL)
		}
		of.closed = true
		return nilErr
	})
	register("(*os.File).Name", func(fr *frame, a []value) value {
		of := fr.fileOf(a[0])
		if of == nil {
			panic(runtimeError("invalid memory address or nil pointer dereference"))
		}
		return of.path
	})
	register("(*os.File).Stat", func(fr *frame, a []value) value {
		of := fr.fileOf(a[0])
		if of == nil {
			return tuple{iface{}, fr.globalErr("os", "ErrInvalid")}
		}
		return tuple{fr.fileInfo(of.ent.name, of.node), nilErr}
	})
	register("(*os.File).Chmod", func(fr *frame, a []value) value {
		of := fr.fileOf(a[0])
		if of == nil {
			return fr.globalErr("os", "ErrInvalid")
		}
		if fr.fsStep("fchmod", of.path, true) {
			return fr.pathError("chmod", of.path, eIO)
		}
		chmod(fr, of.node, a[1])
		return nilErr
	})
	write := func(fr *frame, of *openFile, s value) value {
		if of == nil {
			return tuple{0, fr.globalErr("os", "ErrInvalid")}
		}
		if of.closed || !of.write {
			return tuple{0, fr.pathError("write", of.path, eINVAL)}
		}
		if fr.fsStep("write", of.path, true) {
			of.node.content = fr.partialOf(strConcat(of.node.content, s))
			return tuple{0, fr.pathError("write", of.path, eIO)}
		}
		of.node.content = strConcat(of.node.content, s)
		return tuple{strLenValue(normStr(s)), nilErr}
	}
	register("(*os.File).Write", func(fr *frame, a []value) value { return write(fr, fr.fileOf(a[0]), bytesArgToStr(a[1])) })
	register("(*os.File).WriteString", func(fr *frame, a []value) value { return write(fr, fr.fileOf(a[0]), a[1]) })
	register("(*os.File).Sync", func(fr *frame, a []value) value { return nilErr })
	register("(*os.File).ReadDir", func(fr *frame, a []value) value {
		of := fr.fileOf(a[0])
		if of == nil || of.node.kind != nDir {
			return tuple{[]value(nil), fr.globalErr("os", "ErrInvalid")}
		}
		return tuple{fr.dirEntries(fr.run().FS().dir(of.dirPath)), nilErr}
	})

	// io -----------------------------------------------------------------------------
	register("io.Copy", func(fr *frame, a []value) value {
		s, err := fr.drain(a[1].(iface))
		if err.(iface).t != nil {
			return tuple{int64(0), err}
		}
		res := fr.writeTo(a[0], s).(tuple)
		n := fr.convInt(res[0], types.Int64)
		return tuple{n, res[1]}
	})
	register("io.ReadAll", func(fr *frame, a []value) value {
		s, err := fr.drain(a[0].(iface))
		if err.(iface).t != nil {
			return tuple{[]value(nil), err}
		}
		return tuple{symBytes{normStr(s), nil}, nilErr}
	})
	register("io.WriteString", func(fr *frame, a []value) value { return fr.writeTo(a[0], a[1]) })
	register("bytes.NewReader", func(fr *frame, a []value) value {
		t := fr.typeOf("bytes", "Reader")
		cell := new(value)
		*cell = zero(t)
		fr.run().objs[fmt.Sprintf("reader:%p", cell)] = &memReader{s: bytesArgToStr(a[0])}
		return cell
	})
	register("strings.NewReader", func(fr *frame, a []value) value {
		t := fr.typeOf("strings", "Reader")
		cell := new(value)
		*cell = zero(t)
		fr.run().objs[fmt.Sprintf("reader:%p", cell)] = &memReader{s: a[0]}
		return cell
	})
	register("io.NopCloser", func(fr *frame, a []value) value {
		// keep the reader; Close is a no-op via wrapper type from the support package
		t := fr.typeOf("grog/internal/zzverif/fsm", "NopCloser")
		return iface{t: t, v: structure{a[0]}}
	})
}

type memReader struct {
	s    value
	done bool
	rpos int
}

// partialOf returns a fresh symbolic proper prefix of s (a torn write).
func (fr *frame) partialOf(s value) value {
	s = normStr(s)
	if c, ok := s.(string); ok && c == "" {
		return ""
	}
	r := fr.run()
	p := r.declare(r.fresh("partial"), smt.SString, "partial")
	st := strTerm(s)
	r.assertPC(smt.And(smt.PrefixOf(p, st), smt.Lt(smt.StrLen(p), smt.StrLen(st))))
	return symStr{p}
}

func (fr *frame) globalErr(pkg, name string) iface {
	p := fr.i.prog.ImportedPackage(pkg)
	if p == nil {
		panic(unsupported("package not loaded: " + pkg))
	}
	g := p.Var(name)
	v := *fr.i.globalAddr(g)
	if _, bad := v.(poison); bad {
		panic(unsupported("uninitialised global " + pkg + "." + name))
	}
	return v.(iface)
}

func (fr *frame) dirEntries(d *fsDir) []value {
	t := fr.typeOf("grog/internal/zzverif/fsm", "Info")
	_ = t
	if d == nil {
		return nil
	}
	es := append([]*fsEntry(nil), d.entries...)
	// os.ReadDir returns entries sorted by filename (concrete names only)
	allConcrete := true
	for _, e := range es {
		if _, ok := normStr(e.name).(string); !ok {
			allConcrete = false
		}
	}
	if allConcrete {
		sort.Slice(es, func(i, j int) bool { return cstr(es[i].name) < cstr(es[j].name) })
	} else {
		// Entries with symbolic names (content digests): concrete names first (sorted), then the
		// digest-named entries ordered by their abstract rank. Only audit code lists such
		// directories; nothing in the code under test depends on this order.
		var conc, symb []*fsEntry
		for _, e := range es {
			if _, ok := normStr(e.name).(string); ok {
				conc = append(conc, e)
			} else {
				symb = append(symb, e)
			}
		}
		sort.Slice(conc, func(i, j int) bool { return cstr(conc[i].name) < cstr(conc[j].name) })
		for i := 1; i < len(symb); i++ {
			for j := i; j > 0; j-- {
				var lt *smt.Term
				if ox, oy := fr.run().digestOrd(symb[j].name), fr.run().digestOrd(symb[j-1].name); ox != nil && oy != nil {
					lt = smt.Lt(ox, oy)
				} else {
					lt = strLtTerm(symb[j].name, symb[j-1].name)
				}
				if !fr.truth(mkBool(lt)) {
					break
				}
				symb[j], symb[j-1] = symb[j-1], symb[j]
			}
		}
		es = append(conc, symb...)
	}
	out := make([]value, len(es))
	for i, e := range es {
		out[i] = fr.fileInfo(e.name, e.node)
	}
	return out
}

// drain returns the remaining content of a reader as a string value.
func (fr *frame) drain(r iface) (value, value) {
	if r.t == nil {
		panic(runtimeError("nil io.Reader"))
	}
	if p, ok := r.v.(*value); ok {
		if p == nil {
			return "", fr.globalErr("os", "ErrInvalid")
		}
		if of := fr.fileOf(p); of != nil {
			if of.closed {
				return "", fr.pathError("read", of.path, eINVAL)
			}
			if of.node.kind != nFile {
				return "", fr.pathError("read", of.path, eISDIR)
			}
			if fr.fsStep("read", of.path, true) {
				return "", fr.pathError("read", of.path, eIO)
			}
			if of.eof {
				return "", nilErr
			}
			of.eof = true
			return of.node.content, nilErr
		}
		if ps, ok := fr.run().objs[fmt.Sprintf("pipe:%p", p)].(*pipeState); ok {
			return fr.drainPipe(ps)
		}
		if mr, ok := fr.run().objs[fmt.Sprintf("reader:%p", p)].(*memReader); ok {
			if mr.done {
				return "", nilErr
			}
			mr.done = true
			return mr.s, nilErr
		}
	}
	// wrapper readers from harness / support packages: look for Drain() (string, error)
	if m := fr.findMethod(r.t, "VerifDrain"); m != nil {
		res := call(fr.i, fr, token.NoPos, m, []value{r.v}).(tuple)
		return res[0], res[1]
	}
	// struct wrappers embedding a reader as first field (NopCloser of the support package)
	if st, ok := r.v.(structure); ok && len(st) > 0 && strings.Contains(r.t.String(), "zzverif/fsm.NopCloser") {
		if inner, ok := st[0].(iface); ok && inner.t != nil {
			return fr.drain(inner)
		}
	}
	// any other reader type (e.g. one defined by the code under test): use its own Read method
	return fr.drainByRead(r)
}

// termSepFree: syntactic check that a string term cannot contain '/'.
func (r *runState) termSepFree(t *smt.Term) bool {
	switch {
	case t.IsConst:
		return !strings.Contains(t.S, "/")
	case t.Op == "var":
		return r.sepFree[t.Name]
	case t.Op == "str.++":
		for _, a := range t.Args {
			if !r.termSepFree(a) {
				return false
			}
		}
		return true
	}
	return false
}

func init() {
	register("path/filepath.Dir", func(fr *frame, a []value) value {
		if _, ok := normStr(a[0]).(string); ok {
			return realBody(fr, []value{normStr(a[0])})
		}
		d, _ := fr.splitPath(a[0])
		return d
	})
	register("path/filepath.Base", func(fr *frame, a []value) value {
		if _, ok := normStr(a[0]).(string); ok {
			return realBody(fr, []value{normStr(a[0])})
		}
		_, b := fr.splitPath(a[0])
		return b
	})
}

// ---------------------------------------------------------------------------------
// byte-level Read on model readers (used when code under test wraps a reader in its own type)

func (fr *frame) readInto(p []value, content value, pos *int) (int, value) {
	content = normStr(content)
	if sa, ok := content.(symStr); ok {
		content = fr.strAtoB(sa)
	}
	cs, _ := toB(content)
	if *pos >= len(cs) {
		return 0, fr.globalErr("io", "EOF")
	}
	n := copy(p, cs[*pos:])
	*pos += n
	return n, nilErr
}

func init() {
	register("(*os.File).Read", func(fr *frame, a []value) value {
		of := fr.fileOf(a[0])
		if of == nil {
			return tuple{0, fr.globalErr("os", "ErrInvalid")}
		}
		if of.closed {
			return tuple{0, fr.pathError("read", of.path, eINVAL)}
		}
		if of.node.kind != nFile {
			return tuple{0, fr.pathError("read", of.path, eISDIR)}
		}
		if of.eof {
			return tuple{0, fr.globalErr("io", "EOF")}
		}
		if fr.fsStep("read", of.path, true) {
			return tuple{0, fr.pathError("read", of.path, eIO)}
		}
		n, err := fr.readInto(a[1].([]value), of.node.content, &of.rpos)
		return tuple{n, err}
	})
	memRead := func(fr *frame, a []value) value {
		mr, ok := fr.run().objs[fmt.Sprintf("reader:%p", a[0].(*value))].(*memReader)
		if !ok {
			return realBody(fr, a)
		}
		if mr.done {
			return tuple{0, fr.globalErr("io", "EOF")}
		}
		n, err := fr.readInto(a[1].([]value), mr.s, &mr.rpos)
		return tuple{n, err}
	}
	register("(*strings.Reader).Read", memRead)
	register("(*bytes.Reader).Read", memRead)
}

// drainByRead drains an arbitrary io.Reader by calling its Read method with a concrete buffer.
func (fr *frame) drainByRead(r iface) (value, value) {
	m := fr.findMethod(r.t, "Read")
	if m == nil {
		panic(unsupported(fmt.Sprintf("io: %s has no Read method", r.t)))
	}
	var acc value = ""
	for iter := 0; iter < 10000; iter++ {
		buf := make([]value, 512)
		for i := range buf {
			buf[i] = uint8(0)
		}
		res := call(fr.i, fr, token.NoPos, m, []value{r.v, buf}).(tuple)
		n := int(asInt64(fr.concretizeInt(res[0])))
		if n > 0 {
			acc = strConcat(acc, bytesToStr(buf[:n]))
		}
		if e := res[1].(iface); e.t != nil {
			if fr.truth(fr.errorsIs(e, fr.globalErr("io", "EOF"))) {
				return acc, nilErr
			}
			return acc, e
		}
	}
	panic(unsupported("io: reader did not reach EOF within 10000 reads"))
}
