package interp

// placeholder; the model file system lives in icept_fs.go
type modelFS struct{}
