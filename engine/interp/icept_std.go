package interp

// Intercepts for strings, bytealg, strconv, fmt, errors, sort.

import (
	"fmt"
	"go/token"
	"go/types"
	"path/filepath"
	"strconv"
	"strings"

	"golang.org/x/tools/go/ssa"

	"gosym/smt"
)

var nilErr = iface{}

// ---------------------------------------------------------------------------------
// string search primitives

// strIndexValue returns the index of sub in s (from position 0) as int value.
func (fr *frame) strIndexValue(s, sub value) value {
	s, sub = normStr(s), normStr(sub)
	if a, ok := s.(string); ok {
		if b, ok := sub.(string); ok {
			return strings.Index(a, b)
		}
	}
	sb, okS := toB(s)
	pb, okP := toB(sub)
	if okS && okP {
		// non-forking ite chain over match positions
		n, m := len(sb), len(pb)
		res := smt.IntC(-1)
		for i := n - m; i >= 0; i-- {
			var conj []*smt.Term
			for j := 0; j < m; j++ {
				conj = append(conj, smt.Eq(charTerm(sb[i+j]), charTerm(pb[j])))
			}
			res = smt.Ite(smt.And(conj...), smt.IntC(int64(i)), res)
		}
		return mkSymInt(res, types.Int)
	}
	return mkSymInt(smt.IndexOf(strTerm(s), strTerm(sub), smt.IntC(0)), types.Int)
}

func (fr *frame) strLastIndexValue(s, sub value) value {
	s, sub = normStr(s), normStr(sub)
	if a, ok := s.(string); ok {
		if b, ok := sub.(string); ok {
			return strings.LastIndex(a, b)
		}
	}
	if sa, ok := s.(symStr); ok {
		s = fr.strAtoB(sa)
	}
	if pa, ok := sub.(symStr); ok {
		sub = fr.strAtoB(pa)
	}
	sb, _ := toB(s)
	pb, _ := toB(sub)
	n, m := len(sb), len(pb)
	res := smt.IntC(-1)
	for i := 0; i <= n-m; i++ {
		var conj []*smt.Term
		for j := 0; j < m; j++ {
			conj = append(conj, smt.Eq(charTerm(sb[i+j]), charTerm(pb[j])))
		}
		res = smt.Ite(smt.And(conj...), smt.IntC(int64(i)), res)
	}
	return mkSymInt(res, types.Int)
}

func byteAsStr(b value) value {
	switch b := b.(type) {
	case uint8:
		return string([]byte{b})
	case int32:
		return string(rune(b))
	case symInt:
		return symStrB{[]value{symInt{b.t, types.Uint8}}}
	}
	panic(fmt.Sprintf("byteAsStr: %T", b))
}

func bytesArgToStr(v value) value {
	switch v := v.(type) {
	case []value:
		return bytesToStr(v)
	case symBytes:
		return v.s
	}
	return v
}

func goStrings(v value) []value { return v.([]value) }

// splitValue implements strings.Split(s, sep) (n<0) for possibly symbolic strings.
func (fr *frame) splitValue(s, sep value, n int) value {
	s, sep = normStr(s), normStr(sep)
	if a, ok := s.(string); ok {
		if b, ok := sep.(string); ok {
			var out []value
			for _, p := range strings.SplitN(a, b, n) {
				out = append(out, p)
			}
			return out
		}
	}
	if l, ok := strLenValue(sep).(int); ok && l == 0 {
		panic(unsupported("strings.Split with empty separator on symbolic string"))
	}
	var out []value
	rest := s
	for n < 0 || len(out) < n-1 {
		idx := fr.strIndexValue(rest, sep)
		if !fr.truth(binop(fr, token.GEQ, nil, idx, 0)) {
			break
		}
		out = append(out, fr.strSlice(rest, 0, idx))
		rest = fr.strSlice(rest, binop(fr, token.ADD, nil, idx, strLenValue(sep)), nil)
	}
	out = append(out, rest)
	return out
}

func joinValue(parts []value, sep value) value {
	var acc value = ""
	for i, p := range parts {
		if i > 0 {
			acc = strConcat(acc, sep)
		}
		acc = strConcat(acc, p)
	}
	return acc
}

func isSpaceTerm(c *smt.Term) *smt.Term {
	return smt.Or(smt.Eq(c, smt.IntC(' ')), smt.And(smt.Le(smt.IntC(9), c), smt.Le(c, smt.IntC(13))))
}

// trimFunc trims leading/trailing characters satisfying pred from a rep-B/concrete string.
func (fr *frame) trimB(s value, left, right bool, pred func(c value) value) value {
	if sa, ok := s.(symStr); ok {
		s = fr.strAtoB(sa)
	}
	cs, _ := toB(s)
	lo, hi := 0, len(cs)
	if left {
		for lo < hi && fr.truth(pred(cs[lo])) {
			lo++
		}
	}
	if right {
		for hi > lo && fr.truth(pred(cs[hi-1])) {
			hi--
		}
	}
	return normStr(symStrB{cs[lo:hi]})
}

func inCutset(cut string) func(c value) value {
	return func(c value) value {
		if u, ok := c.(uint8); ok {
			return strings.IndexByte(cut, u) >= 0
		}
		return mkBool(charIn(charTerm(c), cut))
	}
}

func builderStr(recv value) (*value, value) {
	p := recv.(*value)
	st := (*p).(structure)
	cur := st[1]
	if _, ok := cur.([]value); ok {
		if cur.([]value) == nil || len(cur.([]value)) == 0 {
			return &st[1], ""
		}
		return &st[1], bytesToStr(cur.([]value))
	}
	return &st[1], cur
}

func init() {
	sp := "strings."
	register(sp+"Index", func(fr *frame, a []value) value { return fr.strIndexValue(a[0], a[1]) })
	register(sp+"IndexByte", func(fr *frame, a []value) value { return fr.strIndexValue(a[0], byteAsStr(a[1])) })
	register(sp+"IndexRune", func(fr *frame, a []value) value { return fr.strIndexValue(a[0], byteAsStr(a[1])) })
	register(sp+"LastIndex", func(fr *frame, a []value) value { return fr.strLastIndexValue(a[0], a[1]) })
	register(sp+"LastIndexByte", func(fr *frame, a []value) value { return fr.strLastIndexValue(a[0], byteAsStr(a[1])) })
	register(sp+"Contains", func(fr *frame, a []value) value {
		return binop(fr, token.GEQ, nil, fr.strIndexValue(a[0], a[1]), 0)
	})
	register(sp+"ContainsRune", func(fr *frame, a []value) value {
		return binop(fr, token.GEQ, nil, fr.strIndexValue(a[0], byteAsStr(a[1])), 0)
	})
	register(sp+"HasPrefix", func(fr *frame, a []value) value {
		s, p := normStr(a[0]), normStr(a[1])
		sb, ok1 := toB(s)
		pb, ok2 := toB(p)
		if ok1 && ok2 {
			if len(pb) > len(sb) {
				return false
			}
			return mkBool(strEqTerm(symStrB{sb[:len(pb)]}, symStrB{pb}))
		}
		return mkBool(smt.PrefixOf(strTerm(p), strTerm(s)))
	})
	register(sp+"HasSuffix", func(fr *frame, a []value) value {
		s, p := normStr(a[0]), normStr(a[1])
		sb, ok1 := toB(s)
		pb, ok2 := toB(p)
		if ok1 && ok2 {
			if len(pb) > len(sb) {
				return false
			}
			return mkBool(strEqTerm(symStrB{sb[len(sb)-len(pb):]}, symStrB{pb}))
		}
		return mkBool(smt.SuffixOf(strTerm(p), strTerm(s)))
	})
	register(sp+"Split", func(fr *frame, a []value) value { return fr.splitValue(a[0], a[1], -1) })
	register(sp+"SplitN", func(fr *frame, a []value) value {
		n := int(asInt64(fr.concretizeInt(a[2])))
		if n == 0 {
			return []value(nil)
		}
		return fr.splitValue(a[0], a[1], n)
	})
	register(sp+"Join", func(fr *frame, a []value) value { return joinValue(goStrings(a[0]), a[1]) })
	register(sp+"TrimSpace", func(fr *frame, a []value) value {
		s := normStr(a[0])
		if c, ok := s.(string); ok {
			return strings.TrimSpace(c)
		}
		return fr.trimB(s, true, true, func(c value) value {
			if u, ok := c.(uint8); ok {
				return u == ' ' || (u >= 9 && u <= 13)
			}
			return mkBool(isSpaceTerm(charTerm(c)))
		})
	})
	register(sp+"Trim", func(fr *frame, a []value) value {
		return fr.trimB(normStr(a[0]), true, true, inCutset(cstr(a[1])))
	})
	register(sp+"TrimLeft", func(fr *frame, a []value) value {
		return fr.trimB(normStr(a[0]), true, false, inCutset(cstr(a[1])))
	})
	register(sp+"TrimRight", func(fr *frame, a []value) value {
		return fr.trimB(normStr(a[0]), false, true, inCutset(cstr(a[1])))
	})
	register(sp+"Repeat", func(fr *frame, a []value) value {
		n := int(asInt64(fr.concretizeInt(a[1])))
		var acc value = ""
		for i := 0; i < n; i++ {
			acc = strConcat(acc, a[0])
		}
		return acc
	})
	register(sp+"ReplaceAll", func(fr *frame, a []value) value {
		s, from, to := normStr(a[0]), normStr(a[1]), normStr(a[2])
		if x, ok := s.(string); ok {
			if y, ok := from.(string); ok {
				if z, ok := to.(string); ok {
					return strings.ReplaceAll(x, y, z)
				}
			}
		}
		return mkSymStr(smt.ReplaceAll(strTerm(s), strTerm(from), strTerm(to)))
	})
	register(sp+"Count", func(fr *frame, a []value) value {
		return strings.Count(cstr(a[0]), cstr(a[1]))
	})
	// ASCII case mapping on per-character symbolic strings: ite chains, no forking
	caseMap := func(fr *frame, v value, lower bool) value {
		s := normStr(v)
		if c, ok := s.(string); ok {
			if lower {
				return strings.ToLower(c)
			}
			return strings.ToUpper(c)
		}
		if sa, ok := s.(symStr); ok {
			s = fr.strAtoB(sa)
		}
		sb, ok := s.(symStrB)
		if !ok {
			panic(unsupported(fmt.Sprintf("strings.ToLower/ToUpper on %T", s)))
		}
		return mapCharsB(sb, func(b uint8) uint8 {
			if lower && b >= 'A' && b <= 'Z' {
				return b + 32
			}
			if !lower && b >= 'a' && b <= 'z' {
				return b - 32
			}
			return b
		})
	}
	register(sp+"ToLower", func(fr *frame, a []value) value { return caseMap(fr, a[0], true) })
	register(sp+"ToUpper", func(fr *frame, a []value) value { return caseMap(fr, a[0], false) })
	register(sp+"EqualFold", func(fr *frame, a []value) value {
		x, y := normStr(a[0]), normStr(a[1])
		if cx, ok := x.(string); ok {
			if cy, ok := y.(string); ok {
				return strings.EqualFold(cx, cy)
			}
		}
		return mkBool(strEqTerm(caseMap(fr, x, true), caseMap(fr, y, true)))
	})
	register(sp+"Fields", func(fr *frame, a []value) value {
		var out []value
		s := normStr(a[0])
		if c, ok := s.(string); ok {
			for _, f := range strings.Fields(c) {
				out = append(out, f)
			}
			return out
		}
		// per-character string: fork on "is this character white space" (ASCII)
		if sa, ok := s.(symStr); ok {
			s = fr.strAtoB(sa)
		}
		cs, _ := toB(s)
		isSpace := func(c value) bool {
			if u, ok := c.(uint8); ok {
				return u == ' ' || (u >= 9 && u <= 13)
			}
			return fr.truth(mkBool(isSpaceTerm(charTerm(c))))
		}
		start := -1
		for i, c := range cs {
			if isSpace(c) {
				if start >= 0 {
					out = append(out, normStr(symStrB{cs[start:i]}))
					start = -1
				}
			} else if start < 0 {
				start = i
			}
		}
		if start >= 0 {
			out = append(out, normStr(symStrB{cs[start:]}))
		}
		return out
	})
	register(sp+"Compare", func(fr *frame, a []value) value {
		if fr.truth(mkBool(strEqTerm(a[0], a[1]))) {
			return 0
		}
		if fr.truth(mkBool(strLtTerm(a[0], a[1]))) {
			return -1
		}
		return 1
	})
	register("cmp.Compare", func(fr *frame, a []value) value {
		if fr.truth(binop(fr, token.LSS, nil, a[0], a[1])) {
			return -1
		}
		if fr.truth(binop(fr, token.GTR, nil, a[0], a[1])) {
			return 1
		}
		return 0
	})
	register("cmp.Less", func(fr *frame, a []value) value { return binop(fr, token.LSS, nil, a[0], a[1]) })

	// strings.Builder
	register("(*strings.Builder).WriteString", func(fr *frame, a []value) value {
		slot, cur := builderStr(a[0])
		*slot = strConcat(cur, a[1])
		return tuple{strLenValue(a[1]), nilErr}
	})
	register("(*strings.Builder).WriteByte", func(fr *frame, a []value) value {
		slot, cur := builderStr(a[0])
		*slot = strConcat(cur, byteAsStr(a[1]))
		return nilErr
	})
	register("(*strings.Builder).WriteRune", func(fr *frame, a []value) value {
		slot, cur := builderStr(a[0])
		*slot = strConcat(cur, byteAsStr(a[1]))
		return tuple{1, nilErr}
	})
	register("(*strings.Builder).Write", func(fr *frame, a []value) value {
		slot, cur := builderStr(a[0])
		s := bytesArgToStr(a[1])
		*slot = strConcat(cur, s)
		return tuple{strLenValue(s), nilErr}
	})
	register("(*strings.Builder).String", func(fr *frame, a []value) value {
		_, cur := builderStr(a[0])
		return cur
	})
	register("(*strings.Builder).Len", func(fr *frame, a []value) value {
		_, cur := builderStr(a[0])
		return strLenValue(cur)
	})
	register("(*strings.Builder).Grow", func(fr *frame, a []value) value { return nil })
	register("(*strings.Builder).Reset", func(fr *frame, a []value) value {
		slot, _ := builderStr(a[0])
		*slot = ""
		return nil
	})

	// internal/bytealg (assembly) -------------------------------------------------
	ba := "internal/bytealg."
	register(ba+"IndexByteString", func(fr *frame, a []value) value { return fr.strIndexValue(a[0], byteAsStr(a[1])) })
	register(ba+"IndexString", func(fr *frame, a []value) value { return fr.strIndexValue(a[0], a[1]) })
	register(ba+"CountString", func(fr *frame, a []value) value {
		return strings.Count(cstr(a[0]), cstr(byteAsStr(a[1])))
	})
	register(ba+"LastIndexByteString", func(fr *frame, a []value) value { return fr.strLastIndexValue(a[0], byteAsStr(a[1])) })
	register(ba+"IndexByte", func(fr *frame, a []value) value {
		return fr.strIndexValue(bytesArgToStr(a[0]), byteAsStr(a[1]))
	})
	register(ba+"Index", func(fr *frame, a []value) value {
		return fr.strIndexValue(bytesArgToStr(a[0]), bytesArgToStr(a[1]))
	})
	register(ba+"Equal", func(fr *frame, a []value) value {
		return mkBool(strEqTerm(bytesArgToStr(a[0]), bytesArgToStr(a[1])))
	})
	register(ba+"Compare", func(fr *frame, a []value) value {
		x, y := bytesArgToStr(a[0]), bytesArgToStr(a[1])
		if fr.truth(mkBool(strEqTerm(x, y))) {
			return 0
		}
		if fr.truth(mkBool(strLtTerm(x, y))) {
			return -1
		}
		return 1
	})
	register(ba+"MakeNoZero", func(fr *frame, a []value) value {
		n := asInt64(fr.concretizeInt(a[0]))
		s := make([]value, n)
		for i := range s {
			s[i] = uint8(0)
		}
		return s
	})
	register("internal/stringslite.Index", func(fr *frame, a []value) value { return fr.strIndexValue(a[0], a[1]) })
	register("internal/stringslite.IndexByte", func(fr *frame, a []value) value { return fr.strIndexValue(a[0], byteAsStr(a[1])) })
	register("internal/stringslite.HasPrefix", interceptTable[sp+"HasPrefix"])
	register("internal/stringslite.HasSuffix", interceptTable[sp+"HasSuffix"])
	register("bytes.Equal", interceptTable[ba+"Equal"])
	register("bytes.IndexByte", interceptTable[ba+"IndexByte"])

	// strconv -------------------------------------------------------------------
	register("strconv.Itoa", func(fr *frame, a []value) value {
		if s, ok := a[0].(symInt); ok {
			neg := smt.Lt(s.t, smt.IntC(0))
			return mkSymStr(smt.Ite(neg, smt.Concat(smt.StrC("-"), smt.FromInt(smt.Neg(s.t))), smt.FromInt(s.t)))
		}
		return strconv.Itoa(int(asInt64(a[0])))
	})
	register("strconv.Atoi", func(fr *frame, a []value) value {
		s := normStr(a[0])
		if c, ok := s.(string); ok {
			n, err := strconv.Atoi(c)
			if err != nil {
				return tuple{0, fr.newError("strconv.Atoi: parsing " + strconv.Quote(c) + ": invalid syntax")}
			}
			return tuple{n, nilErr}
		}
		// symbolic: digits only (optionally signed) and short
		t := strTerm(s)
		neg := smt.PrefixOf(smt.StrC("-"), t)
		plus := smt.PrefixOf(smt.StrC("+"), t)
		body := smt.Ite(smt.Or(neg, plus), smt.Substr(t, smt.IntC(1), smt.StrLen(t)), t)
		n := smt.ToInt(body)
		valid := smt.And(smt.Le(smt.IntC(0), n), smt.Le(smt.StrLen(body), smt.IntC(18)))
		if fr.truth(mkBool(valid)) {
			return tuple{mkSymInt(smt.Ite(neg, smt.Neg(n), n), types.Int), nilErr}
		}
		return tuple{0, fr.newError("strconv.Atoi: invalid syntax")}
	})
	register("strconv.Quote", func(fr *frame, a []value) value {
		s := normStr(a[0])
		if c, ok := s.(string); ok {
			return strconv.Quote(c)
		}
		return strConcat(strConcat("\"", s), "\"")
	})
	register("strconv.FormatInt", func(fr *frame, a []value) value {
		return strconv.FormatInt(asInt64(fr.concretizeInt(a[0])), int(asInt64(a[1])))
	})
	register("strconv.ParseBool", func(fr *frame, a []value) value {
		b, err := strconv.ParseBool(cstr(a[0]))
		if err != nil {
			return tuple{false, fr.newError(err.Error())}
		}
		return tuple{b, nilErr}
	})
	register("strconv.ParseInt", func(fr *frame, a []value) value {
		n, err := strconv.ParseInt(cstr(a[0]), int(asInt64(a[1])), int(asInt64(a[2])))
		if err != nil {
			return tuple{int64(0), fr.newError(err.Error())}
		}
		return tuple{n, nilErr}
	})

	// unicode/utf8 helpers frequently hit by stdlib string code
	register("unicode/utf8.RuneCountInString", func(fr *frame, a []value) value { return strLenValue(normStr(a[0])) })
	register("unicode/utf8.ValidString", func(fr *frame, a []value) value { return true })
	register("unicode/utf8.DecodeRuneInString", func(fr *frame, a []value) value {
		s := normStr(a[0])
		if !fr.truth(binop(fr, token.GTR, nil, strLenValue(s), 0)) {
			return tuple{int32(0xFFFD), 0}
		}
		c := fr.strIndex(s, 0)
		return tuple{fr.convInt(c, types.Int32), 1}
	})
	register("unicode/utf8.DecodeLastRuneInString", func(fr *frame, a []value) value {
		s := normStr(a[0])
		n := strLenValue(s)
		if !fr.truth(binop(fr, token.GTR, nil, n, 0)) {
			return tuple{int32(0xFFFD), 0}
		}
		c := fr.strIndex(s, binop(fr, token.SUB, nil, n, 1))
		return tuple{fr.convInt(c, types.Int32), 1}
	})

	// fmt -------------------------------------------------------------------------
	register("fmt.Sprintf", func(fr *frame, a []value) value { return fr.sprintf(a[0], a[1].([]value)) })
	register("fmt.Errorf", func(fr *frame, a []value) value { return fr.errorf(a[0], a[1].([]value)) })
	register("fmt.Sprint", func(fr *frame, a []value) value { return fr.sprint(a[0].([]value), false) })
	register("fmt.Sprintln", func(fr *frame, a []value) value { return strConcat(fr.sprint(a[0].([]value), true), "\n") })
	for _, n := range []string{"fmt.Printf", "fmt.Println", "fmt.Print"} {
		register(n, func(fr *frame, a []value) value { return tuple{0, nilErr} })
	}
	register("fmt.Fprintf", func(fr *frame, a []value) value {
		s := fr.sprintf(a[1], a[2].([]value))
		return fr.writeTo(a[0], s)
	})
	register("fmt.Fprintln", func(fr *frame, a []value) value {
		s := strConcat(fr.sprint(a[1].([]value), true), "\n")
		return fr.writeTo(a[0], s)
	})
	register("fmt.Fprint", func(fr *frame, a []value) value {
		return fr.writeTo(a[0], fr.sprint(a[1].([]value), false))
	})

	// errors ----------------------------------------------------------------------
	register("errors.Is", func(fr *frame, a []value) value { return fr.errorsIs(a[0].(iface), a[1].(iface)) })
	register("errors.As", func(fr *frame, a []value) value { return fr.errorsAs(a[0].(iface), a[1].(iface)) })
	register("errors.Unwrap", func(fr *frame, a []value) value {
		e := a[0].(iface)
		if e.t == nil {
			return nilErr
		}
		if m := fr.findMethod(e.t, "Unwrap"); m != nil && m.Signature.Results().Len() == 1 {
			if _, ok := m.Signature.Results().At(0).Type().Underlying().(*types.Interface); ok {
				return call(fr.i, fr, token.NoPos, m, []value{e.v})
			}
		}
		return nilErr
	})
	register("errors.Join", func(fr *frame, a []value) value {
		var msgs []value
		var errs []iface
		for _, e := range a[0].([]value) {
			ei := e.(iface)
			if ei.t != nil {
				errs = append(errs, ei)
				msgs = append(msgs, fr.errorString(ei))
			}
		}
		if len(errs) == 0 {
			return nilErr
		}
		return fr.newWrapErrors(joinValue(msgs, "\n"), errs)
	})

	// sort ------------------------------------------------------------------------
	sortSlice := func(fr *frame, a []value) value {
		xs := a[0].(iface).v.([]value)
		less := a[1]
		// insertion sort via element swaps (stable)
		for i := 1; i < len(xs); i++ {
			for j := i; j > 0; j-- {
				if !fr.truth(call(fr.i, fr, token.NoPos, less, []value{j, j - 1})) {
					break
				}
				xs[j], xs[j-1] = xs[j-1], xs[j]
			}
		}
		return nil
	}
	register("sort.Slice", sortSlice)
	register("sort.SliceStable", sortSlice)
	// generic slices.Sort / sort.Strings on small slices: insertion sort (avoids pdqsort's
	// bit tricks); semantics identical (result sorted ascending; stability irrelevant for strings)
	insertion := func(fr *frame, xs []value) {
		for i := 1; i < len(xs); i++ {
			for j := i; j > 0; j-- {
				if !fr.truth(binop(fr, token.LSS, nil, xs[j], xs[j-1])) {
					break
				}
				xs[j], xs[j-1] = xs[j-1], xs[j]
			}
		}
	}
	register("slices.Sort", func(fr *frame, a []value) value { insertion(fr, a[0].([]value)); return nil })
	register("sort.Strings", func(fr *frame, a []value) value { insertion(fr, a[0].([]value)); return nil })
	register("sort.Ints", func(fr *frame, a []value) value { insertion(fr, a[0].([]value)); return nil })
	register("slices.Contains", func(fr *frame, a []value) value {
		for _, x := range a[0].([]value) {
			if fr.truth(binop(fr, token.EQL, nil, x, a[1])) {
				return true
			}
		}
		return false
	})
	register("slices.Clone", func(fr *frame, a []value) value {
		xs := a[0].([]value)
		if xs == nil {
			return []value(nil)
		}
		return append([]value{}, xs...)
	})
}

// ---------------------------------------------------------------------------------
// errors

func (fr *frame) typeOf(pkgPath, name string) types.Type {
	pkg := fr.i.prog.ImportedPackage(pkgPath)
	if pkg == nil {
		panic(unsupported("package not loaded: " + pkgPath))
	}
	m := pkg.Type(name)
	if m == nil {
		panic(unsupported("type not found: " + pkgPath + "." + name))
	}
	return m.Type()
}

// newError builds errors.New(msg)
func (fr *frame) newError(msg value) value {
	t := fr.typeOf("errors", "errorString")
	cell := new(value)
	*cell = structure{msg}
	return iface{t: types.NewPointer(t), v: cell}
}

// newWrapError builds a *fmt.wrapError{msg, err}
func (fr *frame) newWrapError(msg value, err iface) value {
	t := fr.typeOf("fmt", "wrapError")
	cell := new(value)
	*cell = structure{msg, err}
	return iface{t: types.NewPointer(t), v: cell}
}

func (fr *frame) newWrapErrors(msg value, errs []iface) value {
	t := fr.typeOf("fmt", "wrapErrors")
	cell := new(value)
	es := make([]value, len(errs))
	for i, e := range errs {
		es[i] = e
	}
	*cell = structure{msg, es}
	return iface{t: types.NewPointer(t), v: cell}
}

func (fr *frame) findMethod(t types.Type, name string) *ssa.Function {
	ms := fr.i.prog.MethodSets.MethodSet(t)
	for i := 0; i < ms.Len(); i++ {
		sel := ms.At(i)
		if sel.Obj().Name() == name {
			return fr.i.prog.MethodValue(sel)
		}
	}
	return nil
}

func (fr *frame) errorString(e iface) value {
	if e.t == nil {
		return "<nil>"
	}
	m := fr.findMethod(e.t, "Error")
	if m == nil {
		panic(unsupported(fmt.Sprintf("no Error method on %s", e.t)))
	}
	return call(fr.i, fr, token.NoPos, m, []value{e.v})
}

func (fr *frame) unwrapAll(e iface) []iface {
	if e.t == nil {
		return nil
	}
	m := fr.findMethod(e.t, "Unwrap")
	if m == nil {
		return nil
	}
	res := m.Signature.Results()
	if res.Len() != 1 {
		return nil
	}
	r := call(fr.i, fr, token.NoPos, m, []value{e.v})
	switch r := r.(type) {
	case iface:
		if r.t == nil {
			return nil
		}
		return []iface{r}
	case []value:
		var out []iface
		for _, x := range r {
			if xi := x.(iface); xi.t != nil {
				out = append(out, xi)
			}
		}
		return out
	}
	return nil
}

func comparableType(t types.Type) bool { return types.Comparable(t) }

func (fr *frame) errorsIs(err, target iface) value {
	if err.t == nil || target.t == nil {
		return err.t == nil && target.t == nil
	}
	if comparableType(target.t) && sameType(err.t, target.t) {
		if fr.truth(equalsV(err.t, err.v, target.v)) {
			return true
		}
	}
	if m := fr.findMethod(err.t, "Is"); m != nil && m.Signature.Params().Len() == 1 && m.Signature.Results().Len() == 1 {
		if fr.truth(call(fr.i, fr, token.NoPos, m, []value{err.v, target})) {
			return true
		}
	}
	for _, u := range fr.unwrapAll(err) {
		if fr.truth(fr.errorsIs(u, target)) {
			return true
		}
	}
	return false
}

func (fr *frame) errorsAs(err, target iface) value {
	if target.t == nil {
		panic(targetPanic{fr.newError("errors: target cannot be nil")})
	}
	ptr, ok := target.t.Underlying().(*types.Pointer)
	if !ok {
		panic(targetPanic{fr.newError("errors: target must be a non-nil pointer")})
	}
	elem := ptr.Elem()
	for err.t != nil {
		assignable := false
		if it, ok := elem.Underlying().(*types.Interface); ok {
			assignable = types.Implements(err.t, it)
		} else {
			assignable = types.Identical(err.t, elem)
		}
		if assignable {
			dst := target.v.(*value)
			if _, isIface := elem.Underlying().(*types.Interface); isIface {
				*dst = err
			} else {
				store(elem, dst, err.v)
			}
			return true
		}
		if m := fr.findMethod(err.t, "As"); m != nil && m.Signature.Params().Len() == 1 {
			if fr.truth(call(fr.i, fr, token.NoPos, m, []value{err.v, target})) {
				return true
			}
		}
		us := fr.unwrapAll(err)
		if len(us) == 0 {
			return false
		}
		if len(us) > 1 {
			for _, u := range us {
				if fr.truth(fr.errorsAs(u, target)) {
					return true
				}
			}
			return false
		}
		err = us[0]
	}
	return false
}

// ---------------------------------------------------------------------------------
// fmt

// formatOne renders v for %v / %s.
func (fr *frame) formatOne(v value, verb byte) value {
	switch x := v.(type) {
	case iface:
		if x.t == nil {
			return "<nil>"
		}
		if verb != 'T' {
			if m := fr.findMethod(x.t, "Error"); m != nil && m.Signature.Params().Len() == 0 {
				return call(fr.i, fr, token.NoPos, m, []value{x.v})
			}
			if m := fr.findMethod(x.t, "String"); m != nil && m.Signature.Params().Len() == 0 && m.Signature.Results().Len() == 1 {
				return call(fr.i, fr, token.NoPos, m, []value{x.v})
			}
		}
		if verb == 'T' {
			return x.t.String()
		}
		return fr.formatPlain(x.v, x.t, verb)
	}
	return fr.formatPlain(v, nil, verb)
}

func (fr *frame) formatPlain(v value, t types.Type, verb byte) value {
	switch x := v.(type) {
	case string, symStr, symStrB:
		if verb == 'q' {
			if c, ok := normStr(x).(string); ok {
				return strconv.Quote(c)
			}
			return strConcat(strConcat("\"", x), "\"")
		}
		return x
	case bool:
		return strconv.FormatBool(x)
	case symBool:
		return mkSymStr(smt.Ite(x.t, smt.StrC("true"), smt.StrC("false")))
	case symInt:
		if verb == 'c' || verb == 'q' {
			s := symStrB{[]value{symInt{x.t, types.Uint8}}}
			if verb == 'q' {
				return strConcat(strConcat("'", s), "'")
			}
			return s
		}
		return interceptTable["strconv.Itoa"](fr, []value{x})
	case []value:
		if t != nil {
			if sl, ok := t.Underlying().(*types.Slice); ok {
				if b, ok := sl.Elem().Underlying().(*types.Basic); ok && b.Kind() == types.Uint8 && (verb == 's' || verb == 'q') {
					return bytesToStr(x)
				}
			}
		}
		var acc value = "["
		for i, e := range x {
			if i > 0 {
				acc = strConcat(acc, " ")
			}
			var et types.Type
			if t != nil {
				if sl, ok := t.Underlying().(*types.Slice); ok {
					et = sl.Elem()
				}
			}
			acc = strConcat(acc, fr.formatTyped(e, et, verb))
		}
		return strConcat(acc, "]")
	case *value:
		if x == nil {
			return "<nil>"
		}
		return fmt.Sprintf("%p", x)
	case float64:
		return strconv.FormatFloat(x, 'g', -1, 64)
	case float32:
		return strconv.FormatFloat(float64(x), 'g', -1, 32)
	case nil:
		return "<nil>"
	}
	if isIntValue(v) {
		i := asInt64orU(v)
		switch verb {
		case 'c':
			return string(rune(i))
		case 'q':
			return strconv.QuoteRune(rune(i))
		case 'x':
			return strconv.FormatInt(i, 16)
		}
		return strconv.FormatInt(i, 10)
	}
	if st, ok := v.(structure); ok && t != nil {
		if ts, ok := t.Underlying().(*types.Struct); ok {
			var acc value = "{"
			for i, f := range st {
				if i > 0 {
					acc = strConcat(acc, " ")
				}
				acc = strConcat(acc, fr.formatTyped(f, ts.Field(i).Type(), verb))
			}
			return strConcat(acc, "}")
		}
	}
	return fmt.Sprintf("<%T>", v)
}

// formatTyped formats a non-interface value whose static type t is known (uses methods of t).
func (fr *frame) formatTyped(v value, t types.Type, verb byte) value {
	if t == nil {
		return fr.formatOne(v, verb)
	}
	if _, isIface := t.Underlying().(*types.Interface); isIface {
		return fr.formatOne(v, verb)
	}
	return fr.formatOne(iface{t: t, v: v}, verb)
}

func asInt64orU(v value) int64 {
	if u, ok := v.(uint64); ok {
		return int64(u)
	}
	return asInt64(v)
}

func (fr *frame) sprint(args []value, spaces bool) value {
	var acc value = ""
	for i, a := range args {
		if i > 0 && spaces {
			acc = strConcat(acc, " ")
		}
		acc = strConcat(acc, fr.formatOne(a, 'v'))
	}
	return acc
}

// sprintf supports the verbs used by grog; width/flags are parsed and ignored except %0Nd/%0Nx on
// concrete ints.
func (fr *frame) sprintf(format value, args []value) value {
	f := cstr(format)
	var acc value = ""
	argi := 0
	for i := 0; i < len(f); i++ {
		c := f[i]
		if c != '%' {
			j := i
			for j < len(f) && f[j] != '%' {
				j++
			}
			acc = strConcat(acc, f[i:j])
			i = j - 1
			continue
		}
		i++
		if i >= len(f) {
			acc = strConcat(acc, "%!(NOVERB)")
			break
		}
		start := i
		for i < len(f) && strings.IndexByte("+-# 0123456789.*", f[i]) >= 0 {
			i++
		}
		if i >= len(f) {
			break
		}
		flags := f[start:i]
		verb := f[i]
		if verb == '%' {
			acc = strConcat(acc, "%")
			continue
		}
		if argi >= len(args) {
			acc = strConcat(acc, "%!"+string(verb)+"(MISSING)")
			continue
		}
		arg := args[argi]
		argi++
		switch verb {
		case 'w', 'v', 's', 'q', 'T', 'c':
			v := verb
			if v == 'w' {
				v = 'v'
			}
			acc = strConcat(acc, fr.formatOne(arg, v))
		case 'd', 'x', 'X', 'o', 'b':
			av := arg
			if ai, ok := arg.(iface); ok {
				av = ai.v
			}
			if isIntValue(av) && !isSym(av) && flags != "" {
				acc = strConcat(acc, fmt.Sprintf("%"+flags+string(verb), asInt64orU(av)))
			} else {
				acc = strConcat(acc, fr.formatOne(arg, verb))
			}
		case 't':
			acc = strConcat(acc, fr.formatOne(arg, 'v'))
		case 'f', 'g', 'e':
			av := arg
			if ai, ok := arg.(iface); ok {
				av = ai.v
			}
			switch fv := av.(type) {
			case float64:
				acc = strConcat(acc, fmt.Sprintf("%"+flags+string(verb), fv))
			case float32:
				acc = strConcat(acc, fmt.Sprintf("%"+flags+string(verb), fv))
			default:
				acc = strConcat(acc, "%!"+string(verb)+"(?)")
			}
		case 'p':
			acc = strConcat(acc, "0xPTR")
		default:
			acc = strConcat(acc, "%!"+string(verb)+"(?)")
		}
	}
	return acc
}

func (fr *frame) errorf(format value, args []value) value {
	msg := fr.sprintf(format, args)
	f := cstr(format)
	// find %w operands
	var wrapped []iface
	argi := 0
	for i := 0; i < len(f); i++ {
		if f[i] != '%' {
			continue
		}
		i++
		for i < len(f) && strings.IndexByte("+-# 0123456789.*", f[i]) >= 0 {
			i++
		}
		if i >= len(f) {
			break
		}
		if f[i] == '%' {
			continue
		}
		if f[i] == 'w' && argi < len(args) {
			if e, ok := args[argi].(iface); ok && e.t != nil {
				wrapped = append(wrapped, e)
			}
		}
		argi++
	}
	switch len(wrapped) {
	case 0:
		return fr.newError(msg)
	case 1:
		return fr.newWrapError(msg, wrapped[0])
	}
	return fr.newWrapErrors(msg, wrapped)
}

// writeTo writes string s to an io.Writer value.
func (fr *frame) writeTo(w value, s value) value {
	wi := w.(iface)
	if wi.t == nil {
		panic(runtimeError("nil io.Writer"))
	}
	if m := fr.findMethod(wi.t, "WriteString"); m != nil {
		return call(fr.i, fr, token.NoPos, m, []value{wi.v, s})
	}
	m := fr.findMethod(wi.t, "Write")
	if m == nil {
		panic(unsupported(fmt.Sprintf("writeTo: %s has no Write", wi.t)))
	}
	return call(fr.i, fr, token.NoPos, m, []value{wi.v, symBytes{s, nil}})
}

// realBody runs the intercepted function's own SSA body.
func realBody(fr *frame, args []value) value { return runSSABody(fr.i, fr, fr.fn, args, nil) }

func init() {
	register("path/filepath.Join", func(fr *frame, a []value) value {
		elems := a[0].([]value)
		anySym := false
		for _, e := range elems {
			if _, ok := normStr(e).(string); !ok {
				anySym = true
			}
		}
		if !anySym {
			return realBody(fr, a)
		}
		// symbolic elements are assumed to be clean, separator-free path components
		// (harness alphabets exclude '/' and '.'); empty elements are skipped as Join does
		var parts []value
		for _, e := range elems {
			e = normStr(e)
			if s, ok := e.(string); ok {
				if s == "" {
					continue
				}
				parts = append(parts, filepath.Clean(s))
				continue
			}
			if fr.truth(binop(fr, token.EQL, nil, strLenValue(e), 0)) {
				continue
			}
			parts = append(parts, e)
		}
		if len(parts) == 0 {
			return ""
		}
		return joinValue(parts, "/")
	})
	register("path/filepath.Clean", func(fr *frame, a []value) value {
		if _, ok := normStr(a[0]).(string); ok {
			return realBody(fr, []value{normStr(a[0])})
		}
		if fr.run().flags["assumeClean"] != 0 {
			return a[0]
		}
		// scan: convert to rep B and run the real code
		if sa, ok := a[0].(symStr); ok {
			return realBody(fr, []value{fr.strAtoB(sa)})
		}
		return realBody(fr, a)
	})
	register(symPkg+"AssumeCleanPaths", func(fr *frame, a []value) value {
		fr.run().flags["assumeClean"] = 1
		return nil
	})
}

// ---------------------------------------------------------------------------------
// byte-for-byte replacement on per-character symbolic strings without forking

// mapCharsB applies a byte->byte table to a rep-B string: every symbolic character becomes an
// ite chain over the table's non-identity entries.
func mapCharsB(s symStrB, table func(b uint8) uint8) value {
	var exc []uint8
	for k := 0; k < 256; k++ {
		if table(uint8(k)) != uint8(k) {
			exc = append(exc, uint8(k))
		}
	}
	out := make([]value, len(s.cs))
	for i, c := range s.cs {
		switch c := c.(type) {
		case uint8:
			out[i] = table(c)
		case symInt:
			t := c.t
			for _, k := range exc {
				t = smt.Ite(smt.Eq(c.t, smt.IntC(int64(k))), smt.IntC(int64(table(k))), t)
			}
			out[i] = symInt{t, types.Uint8}
		default:
			panic(unsupported(fmt.Sprintf("mapCharsB: character %T", c)))
		}
	}
	return normStr(symStrB{out})
}

func init() {
	// strings.ReplaceAll with single-byte old/new on a per-character string
	prev := interceptTable["strings.ReplaceAll"]
	interceptTable["strings.ReplaceAll"] = func(fr *frame, a []value) value {
		if sb, ok := normStr(a[0]).(symStrB); ok {
			from, ok1 := normStr(a[1]).(string)
			to, ok2 := normStr(a[2]).(string)
			if ok1 && ok2 && len(from) == 1 && len(to) == 1 {
				return mapCharsB(sb, func(b uint8) uint8 {
					if b == from[0] {
						return to[0]
					}
					return b
				})
			}
		}
		return prev(fr, a)
	}
	// strings.NewReplacer with single-byte pairs ends up in byteReplacer.Replace, whose table
	// lookup r[b] would otherwise enumerate every value of every symbolic character
	register("(*strings.byteReplacer).Replace", func(fr *frame, a []value) value {
		sb, ok := normStr(a[1]).(symStrB)
		p, ok2 := a[0].(*value)
		if !ok || !ok2 || p == nil {
			return fr.i.runBody(fr, fr.i.stringsByteReplacerReplace(), a)
		}
		arr, ok := (*p).(array)
		if !ok || len(arr) != 256 {
			return fr.i.runBody(fr, fr.i.stringsByteReplacerReplace(), a)
		}
		tab := make([]uint8, 256)
		for k := range arr {
			u, ok := arr[k].(uint8)
			if !ok {
				return fr.i.runBody(fr, fr.i.stringsByteReplacerReplace(), a)
			}
			tab[k] = u
		}
		return mapCharsB(sb, func(b uint8) uint8 { return tab[b] })
	})
}

func (i *interpreter) stringsByteReplacerReplace() *ssa.Function {
	pkg := i.prog.ImportedPackage("strings")
	t := pkg.Type("byteReplacer")
	return i.prog.LookupMethod(types.NewPointer(t.Type()), pkg.Pkg, "Replace")
}

func init() {
	// strings are immutable values in the engine: cloning is the identity (the real body uses unsafe.String)
	register("internal/stringslite.Clone", func(fr *frame, a []value) value { return a[0] })
	register("strings.Clone", func(fr *frame, a []value) value { return a[0] })
	// maps.clone is linknamed to the runtime: copy the engine map
	register("maps.clone", func(fr *frame, a []value) value {
		iv, ok := a[0].(iface)
		if !ok {
			panic(unsupported(fmt.Sprintf("maps.clone: argument %T", a[0])))
		}
		m, ok := iv.v.(*gomap)
		if !ok {
			panic(unsupported(fmt.Sprintf("maps.clone: dynamic type %T", iv.v)))
		}
		if m == nil {
			return iv
		}
		return iface{t: iv.t, v: m.clone(fr)}
	})
}
