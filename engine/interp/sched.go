package interp

// Cooperative deterministic goroutine scheduler, channels and timers.

import (
	"fmt"
	"go/token"
	"go/types"
	"sort"
)

type goroutineKill struct{}

type gstate int

const (
	gRunnable gstate = iota
	gBlocked
	gDone
)

type gor struct {
	id      int
	name    string
	wake    chan struct{}
	exited  chan struct{}
	state   gstate
	ready   func() bool
	why     string
	killed  bool
	started bool
	vc      map[int]int // vector clock (happens-before tracking)
	pid        int64 // model process id (os.Getpid) of this goroutine; inherited by children
	crashArmed int   // >0 while inside sym.RunToCrash on this goroutine
}

type timer struct {
	seq   int
	at    int64 // virtual time
	fire  func()
	fired bool
	dead  bool
	// external: not a clock but an event from outside the program (a signal): it may be delivered
	// before any visible step regardless of other timers, and by default only when nothing else,
	// including every real timer, can run
	external bool
}

type scheduler struct {
	r           *runState
	gs          []*gor
	cur         *gor
	abort       *pathEnd
	preemptions int
	timers      []*timer
	now         int64
	timerSeq    int
	steps       int
	crashPending bool
	timerFires   int
}

func (r *runState) scheduler() *scheduler {
	if r.sched == nil {
		s := &scheduler{r: r}
		main := &gor{id: 0, name: "main", wake: make(chan struct{}, 1), state: gRunnable, started: true, vc: map[int]int{0: 1}}
		s.gs = []*gor{main}
		s.cur = main
		r.sched = s
	}
	return r.sched
}

func (fr *frame) sched() *scheduler { return fr.run().scheduler() }

// spawn creates a new goroutine that will run fn when first scheduled.
func (s *scheduler) spawn(i *interpreter, name string, fn func(root *frame)) *gor {
	g := &gor{id: len(s.gs), name: name, wake: make(chan struct{}, 1), exited: make(chan struct{}), state: gRunnable}
	// happens-before: child inherits parent's clock
	g.vc = map[int]int{}
	for k, v := range s.cur.vc {
		g.vc[k] = v
	}
	g.vc[g.id] = 1
	s.cur.vc[s.cur.id]++
	g.pid = s.cur.pid
	s.gs = append(s.gs, g)
	go func() {
		defer close(g.exited)
		<-g.wake
		if g.killed {
			return
		}
		g.started = true
		root := &frame{i: i, g: g}
		defer func() {
			p := recover()
			g.state = gDone
			if p != nil {
				if _, ok := p.(goroutineKill); ok {
					return
				}
				if _, ok := p.(crashNow); ok {
					// simulated process death raised on this goroutine: deliver it to main
					s.crashPending = true
					main := s.gs[0]
					s.cur = main
					main.wake <- struct{}{}
					return
				}
				var pe pathEnd
				switch p := p.(type) {
				case pathEnd:
					pe = p
				case unsupportedErr:
					pe = pathEnd{endUnsupported, p.msg}
				case targetPanic:
					pe = pathEnd{endPanic, fmt.Sprintf("panic in goroutine %s: %s", g.name, toString(p.v))}
				case runtimeErr:
					pe = pathEnd{endPanic, fmt.Sprintf("panic in goroutine %s: %s", g.name, string(p))}
				default:
					pe = pathEnd{endUnsupported, fmt.Sprintf("interpreter panic in goroutine %s: %v", g.name, p)}
				}
				if s.abort == nil {
					s.abort = &pe
				}
			}
			// hand the baton on
			s.handoffFromDone()
		}()
		fn(root)
	}()
	return g
}

// handoffFromDone is called by a finishing goroutine (host goroutine is about to exit).
func (s *scheduler) handoffFromDone() {
	if s.abort != nil {
		main := s.gs[0]
		s.cur = main
		main.wake <- struct{}{}
		return
	}
	next := s.pick(nil)
	if next == nil {
		// nobody can run: deadlock (main must be blocked, since main finishing ends the run)
		pe := pathEnd{endDeadlock, s.describeBlocked()}
		s.abort = &pe
		main := s.gs[0]
		s.cur = main
		main.wake <- struct{}{}
		return
	}
	s.cur = next
	next.wake <- struct{}{}
}

func (s *scheduler) describeBlocked() string {
	msg := "all goroutines blocked:"
	for _, g := range s.gs {
		if g.state == gBlocked {
			msg += fmt.Sprintf(" [%d %s: %s]", g.id, g.name, g.why)
		}
	}
	return msg
}

// runnable returns goroutines that can run now (refreshing blocked ones).
func (s *scheduler) runnable() []*gor {
	var out []*gor
	for _, g := range s.gs {
		switch g.state {
		case gRunnable:
			out = append(out, g)
		case gBlocked:
			if g.ready() {
				out = append(out, g)
			}
		}
	}
	return out
}

// pick selects the next goroutine to run when the current one cannot continue.
// In exploration mode the pick is a decision; otherwise lowest id first.
// Fires timers when nothing else is runnable.
func (s *scheduler) pick(exclude *gor) *gor {
	for {
		rs := s.runnable()
		if exclude != nil {
			var f []*gor
			for _, g := range rs {
				if g != exclude {
					f = append(f, g)
				}
			}
			rs = f
		}
		if len(rs) > 0 {
			// delay-bounded exploration: the default scheduler runs the lowest-numbered runnable
			// goroutine; every other pick costs one deviation from the budget
			if s.r.ex.Opts.ExploreSched && s.r.flags["noExplore"] == 0 && len(rs) > 1 && s.preemptions < s.r.ex.Opts.Preemptions {
				k := s.r.choose(len(rs))
				if k != 0 {
					s.preemptions++
					s.log(fmt.Sprintf("deviate: pick g%d(%s) instead of g%d(%s)", rs[k].id, rs[k].name, rs[0].id, rs[0].name))
				}
				return rs[k]
			}
			return rs[0]
		}
		if !s.fireNextTimer() {
			return nil
		}
	}
}

func (s *scheduler) fireNextTimer() bool {
	var best *timer
	for _, t := range s.timers {
		if t.fired || t.dead {
			continue
		}
		if best == nil || (best.external && !t.external) || (best.external == t.external && (t.at < best.at || (t.at == best.at && t.seq < best.seq))) {
			best = t
		}
	}
	if best == nil {
		return false
	}
	return s.fireTimer(best)
}

func (s *scheduler) fireTimer(best *timer) bool {
	best.fired = true
	s.timerFires++
	if s.timerFires > 40 {
		// time keeps passing while nobody makes progress
		pe := pathEnd{endDeadlock, "livelock: 40 timer expirations on one path (goroutines keep polling without progress); " + s.describeBlocked()}
		if s.abort == nil {
			s.abort = &pe
		}
		return false
	}
	if best.at > s.now {
		s.now = best.at
	}
	s.log(fmt.Sprintf("timer#%d fires", best.seq))
	best.fire()
	return true
}

func (s *scheduler) addTimer(d int64, fire func()) *timer {
	s.timerSeq++
	t := &timer{seq: s.timerSeq, at: s.now + d, fire: fire}
	s.timers = append(s.timers, t)
	return t
}

func (s *scheduler) log(msg string) {
	if len(s.r.schedLog) < 400 {
		s.r.schedLog = append(s.r.schedLog, msg)
	}
}

// transfer passes the baton from the current goroutine g to next and waits to be resumed.
func (s *scheduler) transfer(g, next *gor) {
	if next == g {
		return
	}
	s.cur = next
	s.log(fmt.Sprintf("-> g%d(%s)", next.id, next.name))
	next.wake <- struct{}{}
	<-g.wake
	if g.killed {
		panic(goroutineKill{})
	}
	if g.id == 0 && s.abort != nil {
		pe := *s.abort
		panic(pe)
	}
	if g.id == 0 && s.crashPending {
		s.crashPending = false
		panic(crashNow{})
	}
}

// block suspends g until ready() holds.
func (s *scheduler) block(g *gor, why string, ready func() bool) {
	if ready() {
		return
	}
	g.state = gBlocked
	g.ready = ready
	g.why = why
	for {
		next := s.pick(nil)
		if next == nil {
			pe := pathEnd{endDeadlock, s.describeBlocked()}
			if s.abort != nil {
				pe = *s.abort
			}
			if g.id == 0 {
				g.state = gRunnable
				panic(pe)
			}
			if s.abort == nil {
				s.abort = &pe
			}
			next = s.gs[0]
		}
		if next == g {
			break
		}
		s.transfer(g, next)
		if ready() {
			break
		}
	}
	g.state = gRunnable
	g.ready = nil
}

// yieldPoint offers a preemptive context switch before a visible operation (exploration mode).
func (s *scheduler) yieldPoint(g *gor, what string) {
	if !s.r.ex.Opts.ExploreSched || s.r.flags["noExplore"] != 0 {
		return
	}
	if s.preemptions >= s.r.ex.Opts.Preemptions {
		return
	}
	for s.preemptions < s.r.ex.Opts.Preemptions {
		rs := s.runnable()
		// a pending timer may also expire now (time passes while goroutines are still running);
		// every pending external event may be delivered now
		timerPending := false
		var externals []*timer
		for _, t := range s.timers {
			if !t.fired && !t.dead {
				if t.external {
					externals = append(externals, t)
				} else {
					timerPending = true
				}
			}
		}
		if len(rs) <= 1 && !timerPending && len(externals) == 0 {
			return
		}
		// order: current first (choice 0 = continue)
		sort.SliceStable(rs, func(i, j int) bool { return rs[i] == g && rs[j] != g })
		n := len(rs)
		if timerPending {
			n++
		}
		n += len(externals)
		k := s.r.choose(n)
		if k == 0 {
			return
		}
		s.preemptions++
		if k >= len(rs) {
			before := map[*gor]bool{}
			for _, r := range rs {
				before[r] = true
			}
			if timerPending && k == len(rs) {
				s.log(fmt.Sprintf("timer expires early (before %s of g%d)", what, g.id))
				s.fireNextTimer()
			} else {
				e := k - len(rs)
				if timerPending {
					e--
				}
				s.log(fmt.Sprintf("external event #%d delivered (before %s of g%d)", externals[e].seq, what, g.id))
				s.fireTimer(externals[e])
			}
			// the expiry and the first step of the goroutine it wakes are one scheduling event
			// (one deviation): a timer that fires without its waiter running is indistinguishable
			// from a later expiry, except through state the callback itself changed
			for _, r := range s.runnable() {
				if !before[r] && r != g {
					s.log(fmt.Sprintf("  -> g%d(%s) woken by it runs", r.id, r.name))
					s.transfer(g, r)
					return
				}
			}
			continue // nothing was woken (the timer ran a callback): the current goroutine goes on
		}
		s.log(fmt.Sprintf("preempt g%d(%s) before %s", g.id, g.name, what))
		s.transfer(g, rs[k])
		return
	}
}

// killAll terminates every goroutine other than main at the end of a path.
func (s *scheduler) killAll() { s.killFrom(1) }

// killPid terminates the goroutines of model process pid that were started at index >= from (except keep).
func (s *scheduler) killPid(pid int64, keep *gor, from int) {
	for i, g := range s.gs {
		if i < from || g == keep || g.pid != pid || g.state == gDone || i == 0 {
			continue
		}
		g.killed = true
		select {
		case g.wake <- struct{}{}:
		default:
		}
		<-g.exited
		g.state = gDone
	}
}

// killFrom terminates the goroutines with index >= from (all goroutines of a crashed process).
func (s *scheduler) killFrom(from int) {
	if from >= len(s.gs) {
		return
	}
	for _, g := range s.gs[from:] {
		if g.state == gDone {
			continue
		}
		g.killed = true
		select {
		case g.wake <- struct{}{}:
		default:
		}
		<-g.exited
		g.state = gDone
	}
	// pending timers of the dead process never fire
	for _, t := range s.timers {
		t.dead = true
	}
}

// ---------------------------------------------------------------------------------
// happens-before bookkeeping (vector clocks) for map race detection

type syncClock struct{ vc map[int]int }

func (s *scheduler) release(g *gor, c *syncClock) {
	if c.vc == nil {
		c.vc = map[int]int{}
	}
	for k, v := range g.vc {
		if v > c.vc[k] {
			c.vc[k] = v
		}
	}
	g.vc[g.id]++
}

func (s *scheduler) acquire(g *gor, c *syncClock) {
	for k, v := range c.vc {
		if v > g.vc[k] {
			g.vc[k] = v
		}
	}
}

type accessRec struct {
	g     int
	clock int
	write bool
	pos   token.Pos
}

type mapShadow struct {
	lastWrite *accessRec
	reads     []accessRec
}

// recordMapAccess checks a map access for a happens-before race.
func (s *scheduler) recordMapAccess(fr *frame, m *gomap, write bool, pos token.Pos) {
	if len(s.gs) == 1 {
		return
	}
	g := fr.g
	sh := s.r.shadow(m)
	hb := func(a *accessRec) bool { return a.g == g.id || g.vc[a.g] >= a.clock }
	race := func(a *accessRec) {
		p1 := fr.i.prog.Fset.Position(a.pos)
		p2 := fr.i.prog.Fset.Position(pos)
		kind := func(w bool) string {
			if w {
				return "write"
			}
			return "read"
		}
		msg := fmt.Sprintf("unsynchronised map %s at %s:%d (g%d) and %s at %s:%d (g%d %s)", kind(a.write), shortFile(p1.Filename), p1.Line, a.g, kind(write), shortFile(p2.Filename), p2.Line, g.id, g.name)
		s.r.raceFound(msg, fmt.Sprintf("%s:%d|%s:%d", shortFile(p1.Filename), p1.Line, shortFile(p2.Filename), p2.Line))
	}
	if sh.lastWrite != nil && !hb(sh.lastWrite) {
		race(sh.lastWrite)
	}
	if write {
		for i := range sh.reads {
			if !hb(&sh.reads[i]) {
				race(&sh.reads[i])
			}
		}
		sh.lastWrite = &accessRec{g.id, g.vc[g.id], true, pos}
		sh.reads = nil
	} else {
		sh.reads = append(sh.reads, accessRec{g.id, g.vc[g.id], false, pos})
	}
}

func shortFile(f string) string {
	for i := len(f) - 1; i >= 0; i-- {
		if f[i] == '/' {
			return f[i+1:]
		}
	}
	return f
}

func (r *runState) shadow(m *gomap) *mapShadow {
	key := fmt.Sprintf("shadow:%p", m)
	if sh, ok := r.objs[key]; ok {
		return sh.(*mapShadow)
	}
	sh := &mapShadow{}
	r.objs[key] = sh
	return sh
}

func (r *runState) raceFound(msg, class string) {
	key := "race:" + class
	if _, ok := r.objs[key]; ok {
		return
	}
	r.objs[key] = true
	v := &Violation{ID: "implicit.map-race", Kind: "race", Msg: msg, Class: class, Model: map[string]any{}}
	for k, x := range r.choices {
		v.Model[k] = x
	}
	r.report(v)
}

// ---------------------------------------------------------------------------------
// channels

type waiter struct {
	g      *gor
	sel    *selOp
	idx    int
	isSend bool
	val    value
	done   bool
	ok     bool
}

type selOp struct {
	fired bool
	idx   int
	recv  value
	ok    bool
}

type gochan struct {
	cap    int
	buf    []value
	closed bool
	recvq  []*waiter
	sendq  []*waiter
	elem   types.Type
	clock  syncClock
	id     int
}

func (w *waiter) stale() bool { return w.done || (w.sel != nil && w.sel.fired) }

func (c *gochan) firstRecv() *waiter {
	for len(c.recvq) > 0 {
		w := c.recvq[0]
		if w.stale() {
			c.recvq = c.recvq[1:]
			continue
		}
		return w
	}
	return nil
}
func (c *gochan) firstSend() *waiter {
	for len(c.sendq) > 0 {
		w := c.sendq[0]
		if w.stale() {
			c.sendq = c.sendq[1:]
			continue
		}
		return w
	}
	return nil
}

func (w *waiter) complete(v value, ok bool) {
	w.done = true
	w.ok = ok
	w.val = v
	if w.sel != nil {
		w.sel.fired = true
		w.sel.idx = w.idx
		w.sel.recv = v
		w.sel.ok = ok
	}
}

func (c *gochan) canSend() bool {
	return c.closed || c.firstRecv() != nil || len(c.buf) < c.cap
}
func (c *gochan) canRecv() bool {
	return len(c.buf) > 0 || c.firstSend() != nil || c.closed
}

// trySend performs a send if possible without blocking.
func (s *scheduler) trySend(g *gor, c *gochan, v value) bool {
	if c.closed {
		panic(runtimeError("send on closed channel"))
	}
	if w := c.firstRecv(); w != nil {
		c.recvq = c.recvq[1:]
		s.release(g, &c.clock)
		s.acquire(w.g, &c.clock)
		w.complete(v, true)
		return true
	}
	if len(c.buf) < c.cap {
		s.release(g, &c.clock)
		c.buf = append(c.buf, v)
		return true
	}
	return false
}

func (s *scheduler) tryRecv(g *gor, c *gochan) (value, bool, bool) {
	if len(c.buf) > 0 {
		v := c.buf[0]
		c.buf = c.buf[1:]
		s.acquire(g, &c.clock)
		if w := c.firstSend(); w != nil {
			c.sendq = c.sendq[1:]
			c.buf = append(c.buf, w.val)
			w.complete(nil, true)
		}
		return v, true, true
	}
	if w := c.firstSend(); w != nil {
		c.sendq = c.sendq[1:]
		v := w.val
		s.acquire(g, &c.clock)
		w.complete(nil, true)
		return v, true, true
	}
	if c.closed {
		s.acquire(g, &c.clock)
		return zero(c.elem), false, true
	}
	return nil, false, false
}

func (fr *frame) chanSend(cv value, v value) {
	c, _ := cv.(*gochan)
	s := fr.sched()
	g := fr.g
	s.yieldPoint(g, "chan send")
	if c == nil {
		s.block(g, "send on nil channel", func() bool { return false })
		return
	}
	if s.trySend(g, c, v) {
		return
	}
	w := &waiter{g: g, isSend: true, val: v}
	c.sendq = append(c.sendq, w)
	s.release(g, &c.clock)
	s.block(g, fmt.Sprintf("chan send (chan#%d)", c.id), func() bool { return w.done || c.closed })
	if !w.done && c.closed {
		panic(runtimeError("send on closed channel"))
	}
}

func (fr *frame) chanRecv(cv value) (value, bool) {
	c, _ := cv.(*gochan)
	s := fr.sched()
	g := fr.g
	s.yieldPoint(g, "chan recv")
	if c == nil {
		s.block(g, "receive from nil channel", func() bool { return false })
		return nil, false
	}
	if v, ok, done := s.tryRecv(g, c); done {
		return v, ok
	}
	w := &waiter{g: g}
	c.recvq = append(c.recvq, w)
	s.block(g, fmt.Sprintf("chan receive (chan#%d)", c.id), func() bool { return w.done || c.closed })
	if w.done {
		return w.val, w.ok
	}
	// closed while waiting
	w.done = true
	s.acquire(g, &c.clock)
	return zero(c.elem), false
}

func (fr *frame) chanClose(cv value) {
	c, _ := cv.(*gochan)
	if c == nil {
		panic(runtimeError("close of nil channel"))
	}
	if c.closed {
		panic(runtimeError("close of closed channel"))
	}
	s := fr.sched()
	s.yieldPoint(fr.g, "chan close")
	s.release(fr.g, &c.clock)
	c.closed = true
	// receivers complete with zero value
	for {
		w := c.firstRecv()
		if w == nil {
			break
		}
		c.recvq = c.recvq[1:]
		s.acquire(w.g, &c.clock)
		w.complete(zero(c.elem), false)
	}
}

type selCase struct {
	c      *gochan
	isSend bool
	val    value
}

// chanSelect returns (chosen index or -1 for default, received value, recvOk).
func (fr *frame) chanSelect(cases []selCase, hasDefault bool) (int, value, bool) {
	s := fr.sched()
	g := fr.g
	s.yieldPoint(g, "select")
	var ready []int
	for i, sc := range cases {
		if sc.c == nil {
			continue
		}
		if sc.isSend && sc.c.canSend() || !sc.isSend && sc.c.canRecv() {
			ready = append(ready, i)
		}
	}
	if len(ready) > 0 {
		k := 0
		if len(ready) > 1 {
			k = s.r.choose(len(ready))
		}
		i := ready[k]
		sc := cases[i]
		if sc.isSend {
			if !s.trySend(g, sc.c, sc.val) {
				panic("select: send not possible after readiness check")
			}
			return i, nil, false
		}
		v, ok, done := s.tryRecv(g, sc.c)
		if !done {
			panic("select: recv not possible after readiness check")
		}
		return i, v, ok
	}
	if hasDefault {
		return -1, nil, false
	}
	op := &selOp{}
	var ws []*waiter
	for i, sc := range cases {
		if sc.c == nil {
			continue
		}
		w := &waiter{g: g, sel: op, idx: i, isSend: sc.isSend, val: sc.val}
		ws = append(ws, w)
		if sc.isSend {
			sc.c.sendq = append(sc.c.sendq, w)
		} else {
			sc.c.recvq = append(sc.c.recvq, w)
		}
	}
	closedIdx := -1
	s.block(g, "select", func() bool {
		if op.fired {
			return true
		}
		for i, sc := range cases {
			if sc.c != nil && sc.c.closed {
				closedIdx = i
				return true
			}
		}
		return false
	})
	if op.fired {
		return op.idx, op.recv, op.ok
	}
	op.fired = true
	sc := cases[closedIdx]
	if sc.isSend {
		panic(runtimeError("send on closed channel"))
	}
	s.acquire(g, &sc.c.clock)
	return closedIdx, zero(sc.c.elem), false
}

func (r *runState) newChan(elem types.Type, capacity int) *gochan {
	n, _ := r.flags["chanSeq"]
	r.flags["chanSeq"] = n + 1
	return &gochan{cap: capacity, elem: elem, id: int(n + 1)}
}
