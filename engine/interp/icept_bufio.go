package interp

// Model of bufio.Scanner (line mode) and the harness hook for yaml.Unmarshal.

import (
	"fmt"
	"go/token"
	"go/types"
	"strings"
)

type scannerState struct {
	lines []value
	pos   int
}

type linesReader struct{ lines []value }

func (fr *frame) scannerOf(recv value) *scannerState {
	s, _ := fr.run().objs[fmt.Sprintf("scanner:%p", recv.(*value))].(*scannerState)
	if s == nil {
		panic(unsupported("bufio.Scanner not created through bufio.NewScanner"))
	}
	return s
}

func init() {
	register(symPkg+"LinesReader", func(fr *frame, a []value) value {
		t := fr.typeOf("strings", "Reader")
		cell := new(value)
		*cell = zero(t)
		fr.run().objs[fmt.Sprintf("lines:%p", cell)] = &linesReader{lines: append([]value(nil), a[0].([]value)...)}
		return iface{t: types.NewPointer(t), v: cell}
	})
	register("bufio.NewScanner", func(fr *frame, a []value) value {
		r := a[0].(iface)
		st := &scannerState{}
		if p, ok := r.v.(*value); ok && p != nil {
			if lr, ok := fr.run().objs[fmt.Sprintf("lines:%p", p)].(*linesReader); ok {
				st.lines = lr.lines
			}
		}
		if st.lines == nil {
			content, err := fr.drain(r)
			if err.(iface).t != nil {
				panic(unsupported("bufio.NewScanner: reader failed while draining"))
			}
			c, ok := normStr(content).(string)
			if !ok {
				panic(unsupported("bufio.Scanner over symbolic content (use sym.LinesReader)"))
			}
			if c != "" {
				parts := strings.Split(c, "\n")
				if parts[len(parts)-1] == "" {
					parts = parts[:len(parts)-1]
				}
				for _, l := range parts {
					st.lines = append(st.lines, strings.TrimSuffix(l, "\r"))
				}
			}
		}
		t := fr.typeOf("bufio", "Scanner")
		cell := new(value)
		*cell = zero(t)
		fr.run().objs[fmt.Sprintf("scanner:%p", cell)] = st
		return cell
	})
	register("(*bufio.Scanner).Scan", func(fr *frame, a []value) value {
		st := fr.scannerOf(a[0])
		if st.pos >= len(st.lines) {
			st.pos = len(st.lines) + 1
			return false
		}
		st.pos++
		return true
	})
	register("(*bufio.Scanner).Text", func(fr *frame, a []value) value {
		st := fr.scannerOf(a[0])
		if st.pos == 0 || st.pos > len(st.lines) {
			return ""
		}
		return st.lines[st.pos-1]
	})
	register("(*bufio.Scanner).Bytes", func(fr *frame, a []value) value {
		st := fr.scannerOf(a[0])
		if st.pos == 0 || st.pos > len(st.lines) {
			return []value(nil)
		}
		return symBytes{st.lines[st.pos-1], nil}
	})
	register("(*bufio.Scanner).Err", func(fr *frame, a []value) value { return nilErr })
	register("(*bufio.Scanner).Buffer", func(fr *frame, a []value) value { return nil })

	// third-party YAML parsing is environment: the harness package provides verifYAMLUnmarshal
	register("gopkg.in/yaml.v3.Unmarshal", func(fr *frame, a []value) value {
		for f := fr.caller; f != nil; f = f.caller {
			if f.fn != nil && f.fn.Pkg != nil {
				if hook := f.fn.Pkg.Func("verifYAMLUnmarshal"); hook != nil {
					return call(fr.i, fr, token.NoPos, hook, []value{a[0], a[1]})
				}
				break
			}
		}
		panic(unsupported("yaml.Unmarshal: calling package defines no verifYAMLUnmarshal model"))
	})
}
