package interp

// Intercepts for sync, sync/atomic, time, context helpers, runtime.

import (
	"fmt"
	"go/token"
	"go/types"
	"path/filepath"

	"golang.org/x/tools/go/ssa"
)

type mutexState struct {
	locked  bool
	readers int
	owner   int
	clock   syncClock
}

type wgState struct {
	n     int
	clock syncClock
}

type onceState struct {
	done    bool
	running bool
	clock   syncClock
}

func (r *runState) obj(kind string, p value, mk func() any) any {
	key := fmt.Sprintf("%s:%p", kind, p.(*value))
	if o, ok := r.objs[key]; ok {
		return o
	}
	o := mk()
	r.objs[key] = o
	return o
}

func (fr *frame) mutex(p value) *mutexState {
	return fr.run().obj("mutex", p, func() any { return &mutexState{} }).(*mutexState)
}

func (fr *frame) lock(p value, write bool) {
	m := fr.mutex(p)
	s := fr.sched()
	s.yieldPoint(fr.g, "mutex lock")
	if write {
		s.block(fr.g, "mutex.Lock", func() bool { return !m.locked && m.readers == 0 })
		m.locked = true
		m.owner = fr.g.id
	} else {
		s.block(fr.g, "rwmutex.RLock", func() bool { return !m.locked })
		m.readers++
	}
	s.acquire(fr.g, &m.clock)
}

func (fr *frame) unlock(p value, write bool) {
	m := fr.mutex(p)
	s := fr.sched()
	if write {
		if !m.locked {
			panic(targetPanic{fr.newError("sync: unlock of unlocked mutex")})
		}
		m.locked = false
	} else {
		if m.readers == 0 {
			panic(targetPanic{fr.newError("sync: RUnlock of unlocked RWMutex")})
		}
		m.readers--
	}
	s.release(fr.g, &m.clock)
}

// atomicSync models the synchronisation of sync/atomic operations in the happens-before relation:
// every atomic write releases, every atomic read acquires the object's clock.
func (fr *frame) atomicSync(p value, write bool) {
	pv, ok := p.(*value)
	if !ok || pv == nil || fr.i.cur == nil || fr.g == nil {
		return
	}
	c := fr.run().obj("atomic", p, func() any { return &syncClock{} }).(*syncClock)
	s := fr.sched()
	s.acquire(fr.g, c)
	if write {
		s.release(fr.g, c)
	}
}

func structField(p value, idx int) *value {
	st := (*(p.(*value))).(structure)
	return &st[idx]
}

// atomicSlot returns the storage slot of a typed atomic (last field of the struct).
func atomicSlot(p value) *value {
	st := (*(p.(*value))).(structure)
	return &st[len(st)-1]
}

func init() {
	register("(*sync.Mutex).Lock", func(fr *frame, a []value) value { fr.lock(a[0], true); return nil })
	register("(*sync.Mutex).Unlock", func(fr *frame, a []value) value { fr.unlock(a[0], true); return nil })
	register("(*sync.Mutex).TryLock", func(fr *frame, a []value) value {
		m := fr.mutex(a[0])
		if m.locked || m.readers > 0 {
			return false
		}
		fr.lock(a[0], true)
		return true
	})
	register("(*sync.RWMutex).Lock", func(fr *frame, a []value) value { fr.lock(a[0], true); return nil })
	register("(*sync.RWMutex).Unlock", func(fr *frame, a []value) value { fr.unlock(a[0], true); return nil })
	register("(*sync.RWMutex).RLock", func(fr *frame, a []value) value { fr.lock(a[0], false); return nil })
	register("(*sync.RWMutex).RUnlock", func(fr *frame, a []value) value { fr.unlock(a[0], false); return nil })

	wg := func(fr *frame, p value) *wgState {
		return fr.run().obj("wg", p, func() any { return &wgState{} }).(*wgState)
	}
	wgAdd := func(fr *frame, p value, d int) {
		w := wg(fr, p)
		s := fr.sched()
		w.n += d
		if d < 0 {
			s.release(fr.g, &w.clock)
		}
		if w.n < 0 {
			panic(targetPanic{fr.newError("sync: negative WaitGroup counter")})
		}
	}
	register("(*sync.WaitGroup).Add", func(fr *frame, a []value) value { wgAdd(fr, a[0], int(asInt64(a[1]))); return nil })
	register("(*sync.WaitGroup).Done", func(fr *frame, a []value) value { wgAdd(fr, a[0], -1); return nil })
	register("(*sync.WaitGroup).Wait", func(fr *frame, a []value) value {
		w := wg(fr, a[0])
		s := fr.sched()
		s.yieldPoint(fr.g, "WaitGroup.Wait")
		s.block(fr.g, "WaitGroup.Wait", func() bool { return w.n == 0 })
		s.acquire(fr.g, &w.clock)
		return nil
	})
	register("(*sync.WaitGroup).Go", func(fr *frame, a []value) value {
		wgAdd(fr, a[0], 1)
		fn := a[1]
		p := a[0]
		i := fr.i
		fr.sched().spawn(i, "WaitGroup.Go", func(root *frame) {
			call(i, root, token.NoPos, fn, nil)
			wgAdd(root, p, -1)
		})
		return nil
	})
	register("(*sync.Once).Do", func(fr *frame, a []value) value {
		o := fr.run().obj("once", a[0], func() any { return &onceState{} }).(*onceState)
		s := fr.sched()
		s.yieldPoint(fr.g, "Once.Do")
		if o.done {
			s.acquire(fr.g, &o.clock)
			return nil
		}
		if o.running {
			s.block(fr.g, "Once.Do", func() bool { return o.done })
			s.acquire(fr.g, &o.clock)
			return nil
		}
		o.running = true
		defer func() {
			o.done = true
			s.release(fr.g, &o.clock)
		}()
		call(fr.i, fr, token.NoPos, a[1], nil)
		return nil
	})

	// sync.Map via side table
	smap := func(fr *frame, p value) *gomap {
		return fr.run().obj("syncmap", p, func() any {
			return makeMap(types.NewInterfaceType(nil, nil), 0)
		}).(*gomap)
	}
	register("(*sync.Map).Load", func(fr *frame, a []value) value {
		v, ok := smap(fr, a[0]).lookup(fr, a[1])
		if !ok {
			return tuple{iface{}, false}
		}
		return tuple{v, true}
	})
	register("(*sync.Map).Store", func(fr *frame, a []value) value { smap(fr, a[0]).insert(fr, a[1], a[2]); return nil })
	register("(*sync.Map).Delete", func(fr *frame, a []value) value { smap(fr, a[0]).delete(fr, a[1]); return nil })
	register("(*sync.Map).LoadOrStore", func(fr *frame, a []value) value {
		m := smap(fr, a[0])
		if v, ok := m.lookup(fr, a[1]); ok {
			return tuple{v, true}
		}
		m.insert(fr, a[1], a[2])
		return tuple{a[2], false}
	})
	register("(*sync.Pool).Get", func(fr *frame, a []value) value {
		newFn := *atomicSlot(a[0])
		if f, ok := newFn.(*ssa.Function); ok && f == nil {
			return iface{}
		}
		return call(fr.i, fr, token.NoPos, newFn, nil)
	})
	register("(*sync.Pool).Put", func(fr *frame, a []value) value { return nil })

	// typed atomics
	for _, tn := range []string{"Int32", "Int64", "Uint32", "Uint64", "Uintptr"} {
		tn := tn
		register("(*sync/atomic."+tn+").Load", func(fr *frame, a []value) value { fr.atomicSync(a[0], false); return *atomicSlot(a[0]) })
		register("(*sync/atomic."+tn+").Store", func(fr *frame, a []value) value { fr.atomicSync(a[0], true); *atomicSlot(a[0]) = a[1]; return nil })
		register("(*sync/atomic."+tn+").Add", func(fr *frame, a []value) value {
			fr.atomicSync(a[0], true)
			s := atomicSlot(a[0])
			*s = binop(fr, token.ADD, nil, *s, a[1])
			return *s
		})
		register("(*sync/atomic."+tn+").Swap", func(fr *frame, a []value) value {
			fr.atomicSync(a[0], true)
			s := atomicSlot(a[0])
			old := *s
			*s = a[1]
			return old
		})
		register("(*sync/atomic."+tn+").CompareAndSwap", func(fr *frame, a []value) value {
			fr.atomicSync(a[0], true)
			s := atomicSlot(a[0])
			if fr.truth(binop(fr, token.EQL, nil, *s, a[1])) {
				*s = a[2]
				return true
			}
			return false
		})
	}
	register("(*sync/atomic.Bool).Load", func(fr *frame, a []value) value { fr.atomicSync(a[0], false); return asInt64(*atomicSlot(a[0])) != 0 })
	register("(*sync/atomic.Bool).Store", func(fr *frame, a []value) value {
		fr.atomicSync(a[0], true)
		if a[1].(bool) {
			*atomicSlot(a[0]) = uint32(1)
		} else {
			*atomicSlot(a[0]) = uint32(0)
		}
		return nil
	})
	register("(*sync/atomic.Bool).Swap", func(fr *frame, a []value) value {
		fr.atomicSync(a[0], true)
		s := atomicSlot(a[0])
		old := asInt64(*s) != 0
		if a[1].(bool) {
			*s = uint32(1)
		} else {
			*s = uint32(0)
		}
		return old
	})
	register("(*sync/atomic.Bool).CompareAndSwap", func(fr *frame, a []value) value {
		fr.atomicSync(a[0], true)
		s := atomicSlot(a[0])
		cur := asInt64(*s) != 0
		if cur == a[1].(bool) {
			if a[2].(bool) {
				*s = uint32(1)
			} else {
				*s = uint32(0)
			}
			return true
		}
		return false
	})
	register("(*sync/atomic.Value).Load", func(fr *frame, a []value) value { fr.atomicSync(a[0], false); return *structField(a[0], 0) })
	register("(*sync/atomic.Value).Store", func(fr *frame, a []value) value { fr.atomicSync(a[0], true); *structField(a[0], 0) = a[1]; return nil })
	register("(*sync/atomic.Value).Swap", func(fr *frame, a []value) value {
		fr.atomicSync(a[0], true)
		s := structField(a[0], 0)
		old := *s
		*s = a[1]
		return old
	})
	register("(*sync/atomic.Value).CompareAndSwap", func(fr *frame, a []value) value {
		fr.atomicSync(a[0], true)
		s := structField(a[0], 0)
		if fr.truth(equalsV(types.NewInterfaceType(nil, nil), *s, a[1])) {
			*s = a[2]
			return true
		}
		return false
	})
	register("(*sync/atomic.Pointer).Load", func(fr *frame, a []value) value {
		fr.atomicSync(a[0], false)
		v := *atomicSlot(a[0])
		if p, ok := v.(*value); ok {
			return p
		}
		return (*value)(nil)
	})
	register("(*sync/atomic.Pointer).Store", func(fr *frame, a []value) value { fr.atomicSync(a[0], true); *atomicSlot(a[0]) = a[1]; return nil })
	// function-style atomics
	for _, tn := range []string{"Int32", "Int64", "Uint32", "Uint64", "Uintptr"} {
		register("sync/atomic.Load"+tn, func(fr *frame, a []value) value { fr.atomicSync(a[0], false); return *(a[0].(*value)) })
		register("sync/atomic.Store"+tn, func(fr *frame, a []value) value { fr.atomicSync(a[0], true); *(a[0].(*value)) = a[1]; return nil })
		register("sync/atomic.Add"+tn, func(fr *frame, a []value) value {
			fr.atomicSync(a[0], true)
			p := a[0].(*value)
			*p = binop(fr, token.ADD, nil, *p, a[1])
			return *p
		})
		register("sync/atomic.CompareAndSwap"+tn, func(fr *frame, a []value) value {
			fr.atomicSync(a[0], true)
			p := a[0].(*value)
			if fr.truth(binop(fr, token.EQL, nil, *p, a[1])) {
				*p = a[2]
				return true
			}
			return false
		})
	}

	// time -------------------------------------------------------------------------
	register("time.Now", func(fr *frame, a []value) value {
		t := fr.typeOf("time", "Time")
		z := zero(t).(structure)
		z[1] = int64(fr.sched().now)
		return z
	})
	register("time.Since", func(fr *frame, a []value) value {
		start := a[0].(structure)[1].(int64)
		return fr.sched().now - start
	})
	register("time.Until", func(fr *frame, a []value) value {
		at := a[0].(structure)[1].(int64)
		return at - fr.sched().now
	})
	register("(time.Time).Unix", func(fr *frame, a []value) value { return a[0].(structure)[1].(int64) / 1e9 })
	register("(time.Time).Sub", func(fr *frame, a []value) value {
		return a[0].(structure)[1].(int64) - a[1].(structure)[1].(int64)
	})
	register("(time.Time).Add", func(fr *frame, a []value) value {
		z := deepCopy(a[0]).(structure)
		z[1] = z[1].(int64) + a[1].(int64)
		return z
	})
	register("time.Sleep", func(fr *frame, a []value) value {
		s := fr.sched()
		d := asInt64(a[0])
		done := false
		s.addTimer(d, func() { done = true })
		s.block(fr.g, "time.Sleep", func() bool { return done })
		return nil
	})
	// sym.ProcessExit(): the model process ends: all goroutines other than the caller die, their
	// timers never fire; what they did happens-before everything the caller does afterwards
	register(symPkg+"ProcessExit", func(fr *frame, a []value) value {
		s := fr.sched()
		if fr.g != s.gs[0] {
			panic(unsupported("sym.ProcessExit from a goroutine other than the entry's"))
		}
		for _, o := range s.gs[1:] {
			for k, v := range o.vc {
				if v > fr.g.vc[k] {
					fr.g.vc[k] = v
				}
			}
		}
		s.killFrom(1)
		return nil
	})
	// sym.ExternalEvent(name): blocks until the scheduler delivers the event
	register(symPkg+"ExternalEvent", func(fr *frame, a []value) value {
		s := fr.sched()
		done := false
		t := s.addTimer(1<<60, func() { done = true })
		t.external = true
		s.block(fr.g, "sym.ExternalEvent", func() bool { return done })
		return nil
	})
	register("time.After", func(fr *frame, a []value) value {
		s := fr.sched()
		if r := fr.run(); r.flags["fsVisible"] != 0 && fr.g != nil {
			fs := r.FS()
			fs.opLog = append(fs.opLog, fmt.Sprintf("%d sleep -", fr.g.pid))
		}
		c := fr.run().newChan(fr.typeOf("time", "Time"), 1)
		tv := interceptTable["time.Now"](fr, nil)
		s.addTimer(asInt64(a[0]), func() { s.timerSend(c, tv) })
		return c
	})
	// time.NewTimer / NewTicker: a struct whose first field C is an engine channel fed by the scheduler's timers
	newTimerValue := func(fr *frame, typeName string, d int64, periodic bool) value {
		s := fr.sched()
		if r := fr.run(); r.flags["fsVisible"] != 0 && fr.g != nil {
			fs := r.FS()
			fs.opLog = append(fs.opLog, fmt.Sprintf("%d sleep -", fr.g.pid))
		}
		c := fr.run().newChan(fr.typeOf("time", "Time"), 1)
		tv := interceptTable["time.Now"](fr, nil)
		t := fr.typeOf("time", typeName)
		cell := new(value)
		st := zero(t).(structure)
		st[0] = c
		*cell = st
		key := fmt.Sprintf("timer:%p", cell)
		var arm func()
		arm = func() {
			tm := s.addTimer(d, func() {
				s.timerSend(c, tv)
				if periodic {
					if old, ok := fr.run().objs[key].(*timer); ok && old.dead {
						return
					}
					arm()
				}
			})
			fr.run().objs[key] = tm
		}
		arm()
		return cell
	}
	register("time.NewTimer", func(fr *frame, a []value) value { return newTimerValue(fr, "Timer", asInt64(a[0]), false) })
	register("time.NewTicker", func(fr *frame, a []value) value { return newTimerValue(fr, "Ticker", asInt64(a[0]), true) })
	register("time.Tick", func(fr *frame, a []value) value {
		cell := newTimerValue(fr, "Ticker", asInt64(a[0]), true).(*value)
		return (*cell).(structure)[0]
	})
	register("(*time.Ticker).Stop", func(fr *frame, a []value) value {
		if tm, ok := fr.run().objs[fmt.Sprintf("timer:%p", a[0].(*value))].(*timer); ok {
			tm.dead = true
		}
		return nil
	})
	register("(*time.Timer).Reset", func(fr *frame, a []value) value {
		cell := a[0].(*value)
		key := fmt.Sprintf("timer:%p", cell)
		was := false
		if tm, ok := fr.run().objs[key].(*timer); ok {
			was = !tm.fired && !tm.dead
			tm.dead = true
		}
		s := fr.sched()
		c := (*cell).(structure)[0]
		tv := interceptTable["time.Now"](fr, nil)
		if ch, ok := c.(*gochan); ok && ch != nil {
			fr.run().objs[key] = s.addTimer(asInt64(a[1]), func() { s.timerSend(ch, tv) })
		} else {
			panic(unsupported("(*time.Timer).Reset on a timer without channel (AfterFunc)"))
		}
		return was
	})
	register("time.AfterFunc", func(fr *frame, a []value) value {
		s := fr.sched()
		fn := a[1]
		i := fr.i
		tm := s.addTimer(asInt64(a[0]), func() {
			g := s.spawn(i, "time.AfterFunc", func(root *frame) { call(i, root, token.NoPos, fn, nil) })
			_ = g
		})
		t := fr.typeOf("time", "Timer")
		cell := new(value)
		*cell = zero(t)
		fr.run().objs[fmt.Sprintf("timer:%p", cell)] = tm
		return cell
	})
	register("(*time.Timer).Stop", func(fr *frame, a []value) value {
		if tm, ok := fr.run().objs[fmt.Sprintf("timer:%p", a[0].(*value))].(*timer); ok {
			was := !tm.fired && !tm.dead
			tm.dead = true
			return was
		}
		return false
	})

	// runtime ----------------------------------------------------------------------
	register("runtime.NumCPU", func(fr *frame, a []value) value { return 4 })
	register("runtime.GOMAXPROCS", func(fr *frame, a []value) value { return 4 })
	register("runtime.Gosched", func(fr *frame, a []value) value { fr.sched().yieldPoint(fr.g, "Gosched"); return nil })
	register("runtime.SetFinalizer", func(fr *frame, a []value) value { return nil })
	register("runtime.KeepAlive", func(fr *frame, a []value) value { return nil })
	register("os.Getpid", func(fr *frame, a []value) value {
		if fr.g != nil && fr.g.pid != 0 {
			return int(fr.g.pid)
		}
		return 4242
	})
	// liveness probe of another process: answered by the harness's process table
	// finer model: the probe's system calls are environment, processRunning itself is real code.
	// os.FindProcess never fails on unix; Signal(0) answers from the harness's process table:
	// 0 = alive and ours (nil), 1 = alive but owned by another user (EPERM), 2 = gone (os.ErrProcessDone)
	register("os.FindProcess", func(fr *frame, a []value) value {
		t := fr.typeOf("os", "Process")
		cell := new(value)
		st := zero(t).(structure)
		st[0] = a[0]
		*cell = st
		return tuple{cell, nilErr}
	})
	register("(*os.Process).Signal", func(fr *frame, a []value) value {
		pkg := fr.i.prog.ImportedPackage("grog/internal/locking")
		var fn *ssa.Function
		if pkg != nil {
			fn = pkg.Func("verifProcessSignal")
		}
		if fn == nil {
			panic(unsupported("(*os.Process).Signal: no harness defines verifProcessSignal"))
		}
		fr.sched().yieldPoint(fr.g, "liveness probe")
		pid := (*a[0].(*value)).(structure)[0]
		switch asInt64(call(fr.i, fr, token.NoPos, fn, []value{pid})) {
		case 0:
			return nilErr
		case 1:
			return iface{t: fr.typeOf("syscall", "Errno"), v: uintptr(1)}
		default:
			return fr.globalErr("os", "ErrProcessDone")
		}
	})
	register("grog/internal/locking.processRunning", func(fr *frame, a []value) value {
		pkg := fr.i.prog.ImportedPackage("grog/internal/locking")
		if pkg.Func("verifProcessSignal") != nil {
			// the harness models the system calls: run the real function
			return fr.i.runBody(fr, pkg.Func("processRunning"), a)
		}
		fn := pkg.Func("verifProcessRunning")
		if fn == nil {
			panic(unsupported("processRunning: harness does not define verifProcessRunning"))
		}
		fr.sched().yieldPoint(fr.g, "liveness probe")
		return call(fr.i, fr, token.NoPos, fn, a)
	})
	register("os.Getenv", func(fr *frame, a []value) value { return "" })
	register("os.LookupEnv", func(fr *frame, a []value) value { return tuple{"", false} })
	register("os.Exit", func(fr *frame, a []value) value {
		panic(pathEnd{endDone, fmt.Sprintf("os.Exit(%d)", asInt64(a[0]))})
	})

	// context: real code runs, except the reflection-based comparability check
	register("context.WithValue", func(fr *frame, a []value) value {
		t := fr.typeOf("context", "valueCtx")
		cell := new(value)
		*cell = structure{a[0], a[1], a[2]}
		return iface{t: types.NewPointer(t), v: cell}
	})
	register("internal/reflectlite.TypeOf", func(fr *frame, a []value) value {
		panic(unsupported("reflectlite.TypeOf"))
	})
	register("context.contextName", func(fr *frame, a []value) value { return "ctx" })
}

// timerSend delivers a timer tick on channel c without blocking.
func (s *scheduler) timerSend(c *gochan, v value) {
	if w := c.firstRecv(); w != nil {
		c.recvq = c.recvq[1:]
		w.complete(v, true)
		return
	}
	if len(c.buf) < c.cap {
		c.buf = append(c.buf, v)
	}
}

func init() {
	register("github.com/alitto/pond/v2.NewPool", func(fr *frame, a []value) value {
		pkg := fr.i.prog.ImportedPackage("grog/internal/zzverif/models")
		if pkg == nil {
			panic(unsupported("pond.NewPool: support package models not loaded"))
		}
		return call(fr.i, fr, token.NoPos, pkg.Func("NewGoPool"), nil)
	})
	register("grog/internal/worker.NewProgressTracker", func(fr *frame, a []value) value { return (*value)(nil) })
	register("grog/internal/output/handlers.NewDockerOutputHandler", func(fr *frame, a []value) value { return (*value)(nil) })
	register("grog/internal/output/handlers.NewDockerRegistryOutputHandler", func(fr *frame, a []value) value { return (*value)(nil) })
	register("grog/internal/config.GetWorkspaceCachePrefix", func(fr *frame, a []value) value {
		d := cstr(a[0])
		return "0123456789abcdef-" + filepath.Base(d)
	})
	// the shell is environment: the harness package provides the command model
	register("grog/internal/execution.runTargetCommand", func(fr *frame, a []value) value {
		pkg := fr.i.prog.ImportedPackage("grog/internal/execution")
		fn := pkg.Func("verifRunCommand")
		if fn == nil {
			panic(unsupported("runTargetCommand: harness does not define verifRunCommand"))
		}
		return call(fr.i, fr, token.NoPos, fn, []value{a[0], a[1], a[4]})
	})
	register(symPkg+"Quiesce", func(fr *frame, a []value) value {
		s := fr.sched()
		g := fr.g
		s.block(g, "sym.Quiesce", func() bool {
			for _, o := range s.gs {
				if o == g {
					continue
				}
				if o.state == gRunnable || (o.state == gBlocked && o.ready()) {
					return false
				}
			}
			return true
		})
		return nil
	})
}
