//go:build verif

package locking

import (
	"time"
	"context"
	"fmt"
	"os"
	"strconv"
	"strings"

	"grog/internal/zzverif/sym"
)

func flag(name string) bool { return sym.Choice(name, 2) == 1 }

// process table of the model (answers the liveness probe)
var alive [1024]bool

// processes owned by another user: the probe gets EPERM for them while they live
var foreign [1024]bool

// verifProcessSignal answers kill(pid, 0): 0 = delivered (alive, ours), 1 = EPERM (alive, someone
// else's), 2 = no such process. processRunning itself is executed as written.
func verifProcessSignal(pid int) int {
	if pid <= 0 || pid >= len(alive) || !alive[pid] {
		return 2
	}
	if foreign[pid] {
		return 1
	}
	return 0
}

const lockPath = "/grogroot/ws/lockfile"

// classify explains a broken mutual exclusion by the decisive file-system step: the last removal of
// the lock file and what the file contained at that moment (i.e. whose lock was deleted).
func classify() {
	log := sym.FSLog()
	sym.Note("fs-log", strings.Join(log, " | "))
	for i := len(log) - 1; i >= 0; i-- {
		f := strings.SplitN(log[i], " ", 4)
		if len(f) < 4 || f[1] != "remove" || f[2] != lockPath {
			continue
		}
		if strings.Contains(f[3], "by=Unlock") {
			continue // releasing is never the decisive step (it may delete a thief's file, but only after the theft)
		}
		remover, _ := strconv.Atoi(f[0])
		content := f[3]
		if j := strings.Index(content, "content="); j >= 0 {
			content = content[j+len("content="):]
		} else {
			continue // nothing was there to remove
		}
		switch {
		case content == `""`:
			// an empty lock file: its owner had created it but not yet written its PID
			sym.Class("removed-lock-file-before-holder-wrote-its-pid")
		case isLivePid(content, remover):
			// was the staleness judgement made in the same retry iteration (read, then preempted before
			// the remove), or on information remembered across a wait?
			if readInSameIteration(log[:i], remover) {
				sym.Class("removed-fresh-lock-after-judging-an-older-file-stale")
			} else {
				sym.Class("removed-live-lock-without-re-reading-the-lock-file")
			}
		default:
			sym.Class("lock-lost-after-removal-of-" + content)
		}
		return
	}
	sym.Class("no-removal-of-the-lock-file")
}

// readInSameIteration: walking back through the remover's own steps, a read of the lock file comes
// before any wait (time.After).
func readInSameIteration(log []string, remover int) bool {
	for i := len(log) - 1; i >= 0; i-- {
		f := strings.SplitN(log[i], " ", 4)
		if len(f) < 3 {
			continue
		}
		if pid, err := strconv.Atoi(f[0]); err != nil || pid != remover {
			continue
		}
		switch f[1] {
		case "readfile":
			return f[2] == lockPath
		case "sleep":
			return false
		}
	}
	return false
}

func isLivePid(quoted string, remover int) bool {
	// the PID of another contender of this scenario (it may have exited by the time the violation shows)
	pid, err := strconv.Atoi(strings.Trim(quoted, `"`))
	return err == nil && pid != remover && pid >= 100 && pid < 110
}

// K1/K2/K3: contending processes, every interleaving of their file-system steps (within the
// deviation bound), an optional stale lock file, and an optional crash of one process at any step.
func lockScenario(nProcs int, withCrash bool) {
	alive = [1024]bool{}
	foreign = [1024]bool{}
	if err := os.MkdirAll("/grogroot/ws", 0755); err != nil {
		panic(err)
	}
	foreignHolder := false
	switch sym.Choice("preexisting_lock_file", 5) {
	case 4:
		// held by a live build of another user (the probe answers EPERM); it finishes after a while
		_ = os.WriteFile(lockPath, []byte("500"), 0644)
		alive[500], foreign[500] = true, true
		foreignHolder = true
		// ... possibly a long-running one: the lock file is as old as its build (a lock is its holder's for
		// as long as the holder lives)
		if flag("holder_has_been_running_for_hours") {
			old := time.Now().Add(-7 * time.Hour)
			_ = os.Chtimes(lockPath, old, old)
		}
	case 1:
		_ = os.WriteFile(lockPath, nil, 0644) // empty (a dead process that never wrote its PID)
	case 2:
		_ = os.WriteFile(lockPath, []byte("garbage"), 0644)
	case 3:
		_ = os.WriteFile(lockPath, []byte("999"), 0644) // PID of a dead process
	}
	sym.FSVisible(true)
	if withCrash {
		sym.CrashBudget(1)
	} else {
		sym.CrashBudget(0)
	}
	holders := 0
	if foreignHolder {
		holders = 1
		go func() {
			sym.SetPid(500)
			<-time.After(120 * time.Millisecond) // its build runs (contenders poll every 50 ms)
			holders--
			_ = os.Remove(lockPath)
			alive[500] = false
		}()
	}
	acquired := make([]bool, nProcs)
	crashed := make([]bool, nProcs)
	finished := make(chan int, nProcs)
	for i := 0; i < nProcs; i++ {
		i := i
		pid := 100 + i
		alive[pid] = true
		go func() {
			sym.SetPid(pid)
			died := sym.RunToCrash(func() {
				wl := &WorkspaceLocker{lockFilePath: lockPath}
				if err := wl.Lock(context.Background()); err != nil {
					sym.Failf("C10.lock-returned-error")
					return
				}
				acquired[i] = true
				holders++
				if holders != 1 {
					classify()
				}
				sym.Assert(holders == 1, "C10.K1.at-most-one-process-holds-the-lock")
				sym.Yield() // the build runs
				holders--
				if err := wl.Unlock(); err != nil {
					classify()
					sym.Failf("C10.unlock-returned-error")
				}
			})
			if died {
				crashed[i] = true
				if acquired[i] && holders > 0 {
					holders-- // a dead process no longer runs a build
				}
			}
			alive[pid] = false // the process is gone (crashed, or exited after its build)
			finished <- i
		}()
	}
	for i := 0; i < nProcs; i++ {
		<-finished
	}
	// K2/K3: every process that did not die got the lock eventually (a global deadlock is reported by the engine)
	for i := 0; i < nProcs; i++ {
		sym.Assert(acquired[i] || crashed[i], "C10.K2.every-surviving-process-acquires-eventually")
	}
	sym.Reach(fmt.Sprintf("C10.scenario.%d", nProcs))
}

func VerifC10_K_two_processes() { lockScenario(2, flag("one_process_may_crash")) }

func VerifC10_K_three_processes() { lockScenario(3, false) }

// K4: whatever the lock file contains, a single contender takes the lock iff the content does not
// name a live process: the content is read as a decimal integer after trimming white space (what
// Lock itself writes, and what strconv.Atoi accepts), everything else is stale.
func VerifC10_K_lock_file_content() {
	alive = [1024]bool{}
	foreign = [1024]bool{}
	alive[1], alive[11], alive[100] = true, true, true
	if err := os.MkdirAll("/grogroot/ws", 0755); err != nil {
		panic(err)
	}
	n := 3
	if sym.Tier() == "thorough" {
		n = 4
	}
	content := sym.StringNAlpha("lock_file_content", n, "+-01 \n")
	_ = os.WriteFile(lockPath, []byte(content), 0644)
	pid, perr := strconv.Atoi(strings.TrimSpace(content))
	holderAlive := perr == nil && pid > 0 && pid < len(alive) && alive[pid]
	sym.SetPid(100)
	ctx, cancel := context.WithTimeout(context.Background(), 170*time.Millisecond)
	defer cancel()
	wl := &WorkspaceLocker{lockFilePath: lockPath}
	err := wl.Lock(ctx)
	if holderAlive {
		sym.Assert(err != nil, "C10.K4.lock-naming-a-live-process-is-respected")
		sym.Reach("C10.K4.respected")
	} else {
		sym.Assert(err == nil, "C10.K4.stale-content-is-recovered")
		sym.Reach("C10.K4.recovered")
	}
}
