//go:build verif

package execution

import (
	"context"
	"strings"
	"time"

	"grog/internal/config"
	"grog/internal/dag"
	"grog/internal/model"
	"grog/internal/zzverif/sym"
)

func flag(name string) bool { return sym.Choice(name, 2) == 1 }

// O1/O3/O4 + C05.N1: success is reported and cached only if the command exited 0 (in time),
// every declared output exists and every output check passes; any failure leaves no entry.
func VerifC14_O_success_postconditions() {
	w := newWorld()
	cmdFails := flag("cmd_fails")
	producesOutput := flag("produces_output")
	nChecks := sym.Choice("n_checks", 3)
	checkFailsAfter := make([]bool, nChecks)
	t := fileTarget("t", "build-t", "out.txt")
	content := sym.StringAlpha("content", 3, "ab")
	b := &cmdBehaviour{fail: cmdFails, writes: map[string]string{}}
	if producesOutput {
		b.writes["p/out.txt"] = content
	}
	cmdModel["build-t"] = b
	anyCheckFails := false
	for i := 0; i < nChecks; i++ {
		cmd := []string{"check-0", "check-1"}[i]
		oc := model.OutputCheck{Command: cmd}
		mode := sym.Choice("check_mode_"+cmd, 3) // 0 passes, 1 exits non-zero, 2 wrong output
		if mode == 2 {
			oc.ExpectedOutput = "expected"
			cmdModel[cmd] = &cmdBehaviour{out: " something else\n"}
		} else if mode == 1 {
			cmdModel[cmd] = &cmdBehaviour{fail: true}
		} else if flag("check_expects_" + cmd) {
			oc.ExpectedOutput = " expected "
			cmdModel[cmd] = &cmdBehaviour{out: "expected\n"}
		}
		checkFailsAfter[i] = mode != 0
		anyCheckFails = anyCheckFails || mode != 0
		t.OutputChecks = append(t.OutputChecks, oc)
	}
	mode := []config.LoadOutputsMode{config.LoadOutputsAll, config.LoadOutputsMinimal}[sym.Choice("mode", 2)]
	// the postconditions hold on every route through the executor: cached, no-cache tag, cache disabled
	route := sym.Choice("route", 3)
	if route == 1 {
		t.Tags = []string{model.TagNoCache}
	}
	p := w.newProcess(route != 2, mode, t)
	res, err := p.run(w.ctx, t)
	shouldSucceed := !cmdFails && producesOutput && !anyCheckFails
	sym.Assert((err == nil) == shouldSucceed, "C14.O1.success-iff-exit0-outputs-checks")
	if route != 0 {
		// forced routes are covered by C13; here only the success criterion matters
		if err != nil {
			sym.Assert(!cacheEntryExists(p, t.ChangeHash), "C05.N1.failed-target-leaves-no-cache-entry")
		}
		sym.Reach("C14.O.forced-route")
		return
	}
	sym.Assert(cacheEntryExists(p, t.ChangeHash) == shouldSucceed, "C14.O1.cached-iff-success")
	sym.Assert(ran("build-t") == 1, "C14.O1.command-ran-once-on-empty-cache")
	if err == nil {
		sym.Assert(res == dag.CacheMiss, "C14.O1.fresh-execution-is-not-a-cache-hit")
		sym.Reach("C14.O.success")
	} else {
		sym.Assert(!cacheEntryExists(p, t.ChangeHash), "C05.N1.failed-target-leaves-no-cache-entry")
		sym.Reach("C14.O.failure")
	}
	// a second build in a new process: success is restored from cache, failure is attempted again
	t2 := fileTarget("t", "build-t", "out.txt")
	t2.OutputChecks = t.OutputChecks
	p2 := w.newProcess(true, mode, t2)
	before := ran("build-t")
	res2, err2 := p2.run(w.ctx, t2)
	if shouldSucceed {
		sym.Assert(err2 == nil && res2 == dag.CacheHit && ran("build-t") == before, "C02.noop.second-build-runs-nothing")
	} else {
		sym.Assert(ran("build-t") == before+1, "C05.N1.failed-target-is-attempted-again")
		sym.Assert((err2 == nil) == shouldSucceed, "C14.O3.still-failing-build-fails-again")
	}
}

// O4: a command that exceeds its timeout is an error named "timeout" and leaves no entry
func VerifC14_O_timeout() {
	w := newWorld()
	t := fileTarget("t", "build-t", "out.txt")
	t.Timeout = time.Second
	cmdModel["build-t"] = &cmdBehaviour{writes: map[string]string{"p/out.txt": "x"}}
	which := sym.Choice("ctx", 3) // 0 live, 1 deadline exceeded, 2 cancelled
	ctx := w.ctx
	switch which {
	case 1:
		c, cancel := context.WithDeadline(ctx, time.Now().Add(-time.Second))
		defer cancel()
		ctx = c
	case 2:
		c, cancel := context.WithCancel(ctx)
		cancel()
		ctx = c
	}
	p := w.newProcess(true, config.LoadOutputsAll, t)
	_, err := p.run(ctx, t)
	switch which {
	case 0:
		sym.Assert(err == nil && cacheEntryExists(p, t.ChangeHash), "C14.O4.live-context-succeeds")
	case 1:
		sym.Assert(err != nil && !cacheEntryExists(p, t.ChangeHash), "C14.O4.timeout-fails-and-is-not-cached")
	case 2:
		sym.Assert(err != nil && !cacheEntryExists(p, t.ChangeHash), "C14.O4.cancelled-fails-and-is-not-cached")
		sym.Assert(ran("build-t") == 0, "C14.O4.cancelled-context-starts-no-command")
	}
	sym.Reach("C14.O.timeout")
}

// O3b: checks are evaluated after the execution, whatever they said before it: a command that
// destroys the checked condition fails the build and is not cached
func VerifC14_O_command_breaks_condition() {
	w := newWorld()
	extState["service"] = true // the condition holds before the build: the pre-check passes
	breaks := flag("command_breaks_condition")
	hasEntry := flag("older_state_cached")
	cmdModel["deploy-v1"] = &cmdBehaviour{writes: map[string]string{"p/out.txt": "v1"}}
	cmdModel["deploy-v2"] = &cmdBehaviour{writes: map[string]string{"p/out.txt": "v2"}}
	if breaks {
		cmdModel["deploy-v2"].unsets = []string{"service"}
	}
	mk := func(cmd string) *model.Target {
		t := fileTarget("t", cmd, "out.txt")
		t.OutputChecks = []model.OutputCheck{{Command: "check:service"}}
		return t
	}
	if hasEntry {
		t0 := mk("deploy-v1")
		p0 := w.newProcess(true, config.LoadOutputsAll, t0)
		_, err0 := p0.run(w.ctx, t0)
		sym.Assert(err0 == nil, "C14.setup.older-state-built")
	}
	// the target is edited (cache miss) while the pre-check still passes
	t := mk("deploy-v2")
	p := w.newProcess(true, modeOf(sym.Choice("mode", 2)), t)
	_, err := p.run(w.ctx, t)
	sym.Assert(ran("deploy-v2") == 1, "C14.O3.edited-target-executes")
	sym.Assert((err == nil) == !breaks, "C14.O3.checks-are-evaluated-after-execution")
	sym.Assert(cacheEntryExists(p, t.ChangeHash) == !breaks, "C14.O3.broken-postcondition-is-not-cached")
	sym.Reach("C14.O.breaks")
}

// O5: a target without a command (a guard that only has output checks) succeeds - and is cached - iff its checks pass
func VerifC14_O_commandless_guard() {
	w := newWorld()
	nChecks := 1 + sym.Choice("n_checks_minus_1", 2)
	t := &model.Target{Label: fileTarget("g", "").Label}
	allPass := true
	for i := 0; i < nChecks; i++ {
		cmd := []string{"check-0", "check-1"}[i]
		passes := flag("passes_" + cmd)
		cmdModel[cmd] = &cmdBehaviour{fail: !passes}
		allPass = allPass && passes
		t.OutputChecks = append(t.OutputChecks, model.OutputCheck{Command: cmd})
	}
	mode := modeOf(sym.Choice("mode", 2))
	p := w.newProcess(true, mode, t)
	_, err := p.run(w.ctx, t)
	sym.Assert((err == nil) == allPass, "C14.O5.commandless-target-succeeds-iff-its-checks-pass")
	sym.Assert(cacheEntryExists(p, t.ChangeHash) == allPass, "C14.O5.commandless-target-cached-iff-success")
	sym.Reach("C14.O.commandless")
}

// O6: with several declared outputs every one of them must exist - whichever is missing (first, middle, last)
func VerifC14_O_every_declared_output() {
	w := newWorld()
	outs := []string{"o1.txt", "o2.txt", "o3.txt"}
	b := &cmdBehaviour{writes: map[string]string{}}
	all := true
	for _, o := range outs {
		if flag("produces_" + o) {
			b.writes["p/"+o] = "x"
		} else {
			all = false
		}
	}
	cmdModel["build-t"] = b
	t := fileTarget("t", "build-t", outs...)
	mode := modeOf(sym.Choice("mode", 2))
	p := w.newProcess(true, mode, t)
	_, err := p.run(w.ctx, t)
	sym.Assert((err == nil) == all, "C14.O6.success-iff-every-declared-output-exists")
	sym.Assert(cacheEntryExists(p, t.ChangeHash) == all, "C14.O6.cached-iff-every-declared-output-exists")
	sym.Reach("C14.O.outputs")
}

// O7: an expected_output check compares the whole (white-space trimmed) output of the check command with
// the whole expectation - symbolic texts on both sides, so "1.2.3" vs "1.2.30" is inside the search space
func VerifC14_O_expected_output_is_compared_whole() {
	newWorld()
	n := 2
	if sym.Tier() == "thorough" {
		n = 3
	}
	expected := sym.StringNAlpha("expected", n, "a0 ")
	actual := sym.StringNAlpha("actual", n+1, "a0 \n")
	sym.Assume(expected != "") // an empty expectation means "no expectation"
	cmdModel["check"] = &cmdBehaviour{out: actual}
	t := fileTarget("g", "")
	t.OutputChecks = []model.OutputCheck{{Command: "check", ExpectedOutput: expected}}
	err := runOutputChecks(context.Background(), t, nil, nil)
	want := sym.StrEq(strings.TrimSpace(expected), strings.TrimSpace(actual))
	sym.Assert(sym.Iff(err == nil, want), "C14.O7.expected-output-compared-whole-after-trimming")
	sym.Reach("C14.O.expected-output")
}
