//go:build verif

package execution

import (
	"context"
	"os"
	"path/filepath"
	"sort"
	"strings"

	"grog/internal/config"
	"grog/internal/label"
	"grog/internal/model"
	"grog/internal/zzverif/sym"
)

type c15Result struct {
	err        bool
	executed   string            // sorted multiset of user commands run by the second build
	atTStart   map[string]string // dependency outputs present when T's command started
	tStarted   bool
	finalFiles map[string]string
}

type c15Params struct {
	aliasD2    bool
	noCacheD1  bool
	lostEntry  int // 0 none, 1 d1's target entry, 2 d2's target entry
	lostBlobs  bool
	editT      bool
	readFault  bool // one injected read fault on the target-result store during the second build
}

// scenario: D1, D2 -> T. Build once (mode all) to fill the cache, wipe the workspace outputs
// (fresh checkout sharing the cache), optionally edit T, then build again in the given mode.
func c15Scenario(name string, mode config.LoadOutputsMode, ps c15Params) c15Result {
	resetCommands()
	config.Global.Root = "/grogroot-" + name
	config.Global.WorkspaceRoot = sym.TempDir(name)
	config.Global.OS, config.Global.Arch = "linux", "amd64"
	_ = os.MkdirAll(wsPath("p"), 0755)
	w := &world{ctx: newWorldCtx()}
	cmdModel["build-d1"] = &cmdBehaviour{writes: map[string]string{"p/d1.txt": "one"}}
	cmdModel["build-d2"] = &cmdBehaviour{writes: map[string]string{"p/d2.txt": "two"}}
	cmdModel["build-t"] = &cmdBehaviour{writes: map[string]string{"p/t.txt": "tee"}}
	cmdModel["build-t-edited"] = &cmdBehaviour{writes: map[string]string{"p/t.txt": "tee2"}}
	mk := func(tCommand string) []model.BuildNode {
		d1 := fileTarget("d1", "build-d1", "d1.txt")
		if ps.noCacheD1 {
			d1.Tags = []string{model.TagNoCache}
		}
		d2 := fileTarget("d2", "build-d2", "d2.txt")
		t := fileTarget("t", tCommand, "t.txt")
		nodes := []model.BuildNode{d1, d2}
		d2ref := d2.Label
		if ps.aliasD2 {
			a := &model.Alias{Label: label.TL("p", "d2alias"), Actual: d2.Label}
			nodes = append(nodes, a)
			d2ref = a.Label
		}
		t.Dependencies = []label.TargetLabel{d1.Label, d2ref}
		return append(nodes, t)
	}
	runAll := func(p *process, nodes []model.BuildNode) bool {
		for _, n := range nodes {
			if tgt, ok := n.(*model.Target); ok {
				if _, err := p.run(w.ctx, tgt); err != nil {
					return false
				}
			}
		}
		return true
	}
	nodes1 := mk("build-t")
	p1 := w.newProcess(true, config.LoadOutputsAll, nodes1...)
	sym.Assert(runAll(p1, nodes1), "C15.setup.first-build")
	// fresh checkout: outputs gone from the workspace, cache kept
	for _, f := range []string{"p/d1.txt", "p/d2.txt", "p/t.txt"} {
		_ = os.Remove(wsPath(f))
	}
	switch ps.lostEntry {
	case 1:
		_ = os.Remove(filepath.Join(config.Global.GetWorkspaceCacheDirectory(), "target", nodes1[0].(*model.Target).ChangeHash))
	case 2:
		_ = os.Remove(filepath.Join(config.Global.GetWorkspaceCacheDirectory(), "target", nodes1[1].(*model.Target).ChangeHash))
	}
	if ps.lostBlobs {
		_ = os.RemoveAll(filepath.Join(config.Global.GetWorkspaceCacheDirectory(), "cas"))
	}
	tCmd := "build-t"
	if ps.editT {
		tCmd = "build-t-edited"
	}
	nodes2 := mk(tCmd)
	p2 := w.newProcess(true, mode, nodes2...)
	watchFiles = []string{"p/d1.txt", "p/d2.txt"}
	before := len(cmdLog)
	if ps.readFault {
		sym.Faults(1, filepath.Join(config.Global.GetWorkspaceCacheDirectory(), "target"), "open")
	}
	ok := runAll(p2, nodes2)
	sym.Faults(0, "", "")
	res := c15Result{err: !ok, finalFiles: map[string]string{}}
	cmds := append([]string{}, cmdLog[before:]...)
	sort.Strings(cmds)
	res.executed = strings.Join(cmds, ",")
	if snap, started := startSnapshot[tCmd]; started {
		res.tStarted = true
		res.atTStart = snap
	}
	for _, f := range []string{"p/d1.txt", "p/d2.txt", "p/t.txt"} {
		if c, ok := readWS(f); ok {
			res.finalFiles[f] = c
		}
	}
	return res
}

func symC15Params(faults bool) c15Params {
	ps := c15Params{aliasD2: flag("d2_behind_alias"), noCacheD1: flag("d1_no_cache"), editT: flag("t_edited")}
	if faults {
		ps.lostEntry = sym.Choice("lost_target_entry", 3)
		ps.lostBlobs = flag("blobs_lost")
	}
	return ps
}

func c15Check(ps c15Params, faultFree bool) {
	all := c15Scenario("wall", config.LoadOutputsAll, ps)
	min := c15Scenario("wmin", config.LoadOutputsMinimal, ps)
	sym.Assert(all.err == min.err, "C15.M1.same-success-in-both-modes")
	sym.Assert(all.executed == min.executed, "C15.M1.same-commands-executed-in-both-modes")
	if min.tStarted {
		sym.Assert(min.atTStart["p/d1.txt"] == "one" && min.atTStart["p/d2.txt"] == "two", "C15.M2.dependency-outputs-present-when-command-starts")
		sym.Reach("C15.minimal.t-executed")
	}
	if all.tStarted {
		sym.Assert(all.atTStart["p/d1.txt"] == "one" && all.atTStart["p/d2.txt"] == "two", "C15.M2.dependency-outputs-present-when-command-starts-mode-all")
	}
	for f, c := range min.finalFiles {
		sym.Assert(all.finalFiles[f] == c, "C15.M4.materialised-outputs-have-the-same-bytes")
	}
	if faultFree && !ps.noCacheD1 {
		sym.Assert(!strings.Contains(min.executed, "build-d"), "C15.M3.no-dependency-command-runs-without-faults")
	}
	if faultFree && ps.noCacheD1 {
		sym.Assert(strings.Count(min.executed, "build-d1") == 1, "C03.W-once.no-cache-dependency-executes-once-per-build")
	}
}

// M1-M4 without storage faults
func VerifC15_M_equivalence() {
	ps := symC15Params(false)
	c15Check(ps, true)
	sym.Reach("C15.M.equivalence")
}

// M1, M2, M4 with lost cache entries / blobs
func VerifC15_M_lost_entries() {
	ps := symC15Params(true)
	sym.Assume(ps.lostEntry != 0 || ps.lostBlobs)
	// Lost blobs only "turn out" to be irretrievable when something tries to load them: with an
	// unedited T nothing is materialised in minimal mode and nothing runs, while mode all re-executes.
	// That difference is the point of minimal mode, not a violation, so blobs are lost only when T runs.
	sym.Assume(!ps.lostBlobs || ps.editT)
	c15Check(ps, false)
	sym.Reach("C15.M.lost")
}

// M2 with a transient read fault on the target-result store while dependency outputs are loaded
func VerifC15_M_read_fault() {
	ps := c15Params{aliasD2: flag("d2_behind_alias"), editT: true, readFault: true}
	min := c15Scenario("wmin", config.LoadOutputsMinimal, ps)
	if min.tStarted {
		sym.Assert(min.atTStart["p/d1.txt"] == "one" && min.atTStart["p/d2.txt"] == "two", "C15.M2.dependency-outputs-present-despite-read-fault")
	}
	sym.Reach("C15.M.fault")
}

// chain A <- B <- T: B's blob is lost while its result entry remains and T is edited. Re-running B
// needs A's outputs in the workspace first (recursive loading of the dependency's dependencies).
func c15Chain(name string, mode config.LoadOutputsMode, loseB bool) (bool, string) {
	resetCommands()
	config.Global.Root = "/grogroot-" + name
	config.Global.WorkspaceRoot = sym.TempDir(name)
	config.Global.OS, config.Global.Arch = "linux", "amd64"
	_ = os.MkdirAll(wsPath("p"), 0755)
	w := &world{ctx: newWorldCtx()}
	cmdModel["build-a"] = &cmdBehaviour{writes: map[string]string{"p/a.txt": "A"}}
	cmdFuncs["build-b"] = func() error {
		a, err := os.ReadFile(wsPath("p/a.txt"))
		if err != nil {
			return err // B needs A's output
		}
		return os.WriteFile(wsPath("p/b.txt"), []byte("B:"+string(a)), 0644)
	}
	tee := func(cmd string) func() error {
		return func() error {
			b, err := os.ReadFile(wsPath("p/b.txt"))
			if err != nil {
				return err
			}
			return os.WriteFile(wsPath("p/t.txt"), []byte(cmd+":"+string(b)), 0644)
		}
	}
	cmdFuncs["build-t"] = tee("T1")
	cmdFuncs["build-t-edited"] = tee("T2")
	mk := func(tCmd string) []model.BuildNode {
		a := fileTarget("a", "build-a", "a.txt")
		b := fileTarget("b", "build-b", "b.txt")
		b.Dependencies = []label.TargetLabel{a.Label}
		t := fileTarget("t", tCmd, "t.txt")
		t.Dependencies = []label.TargetLabel{b.Label}
		return []model.BuildNode{a, b, t}
	}
	runAll := func(p *process, nodes []model.BuildNode) bool {
		for _, n := range nodes {
			if _, err := p.run(w.ctx, n.(*model.Target)); err != nil {
				return false
			}
		}
		return true
	}
	n1 := mk("build-t")
	p1 := w.newProcess(true, config.LoadOutputsAll, n1...)
	sym.Assert(runAll(p1, n1), "C15.setup.chain-first-build")
	for _, f := range []string{"p/a.txt", "p/b.txt", "p/t.txt"} {
		_ = os.Remove(wsPath(f))
	}
	if loseB {
		tr, err := p1.e.targetCache.Load(w.ctx, n1[1].(*model.Target).ChangeHash)
		if err == nil && len(tr.Outputs) == 1 {
			_ = os.Remove(filepath.Join(config.Global.GetWorkspaceCacheDirectory(), "cas", tr.Outputs[0].GetFile().GetDigest().GetHash()))
		}
	}
	n2 := mk("build-t-edited")
	p2 := w.newProcess(true, mode, n2...)
	ok := runAll(p2, n2)
	got, _ := readWS("p/t.txt")
	return ok, got
}

func VerifC15_M_chain_lost_middle_blob() {
	lose := flag("middle_blob_lost")
	okAll, outAll := c15Chain("wall", config.LoadOutputsAll, lose)
	okMin, outMin := c15Chain("wmin", config.LoadOutputsMinimal, lose)
	sym.Assert(okAll, "C15.M1.chain-builds-in-mode-all")
	sym.Assert(okMin == okAll, "C15.M1.chain-same-success-in-both-modes")
	sym.Assert(outMin == outAll && outAll == "T2:B:A", "C15.M4.chain-same-bytes-in-both-modes")
	sym.Reach("C15.M.chain")
}

// Two dependants of one cached dependency execute in the same build on two workers (whole
// Executor.Execute). Whatever is lost from the cache, minimal mode must end like mode all: build
// succeeds, both dependants saw the dependency's output, and the dependency ran at most once.
func VerifC15_M_parallel_dependants() {
	newWorld()
	config.Global.NumWorkers = 2
	if sym.Tier() == "thorough" {
		config.Global.NumWorkers = 2 + sym.Choice("workers_minus_2", 2)
	}
	cmdModel["build-d"] = &cmdBehaviour{writes: map[string]string{"p/d.txt": "D"}}
	dependant := func(name, prefix string) func() error {
		return func() error {
			b, err := os.ReadFile(wsPath("p/d.txt"))
			if err != nil {
				return err
			}
			return os.WriteFile(wsPath("p/"+name+".txt"), []byte(prefix+string(b)), 0644)
		}
	}
	cmdFuncs["build-t1"], cmdFuncs["build-t2"] = dependant("t1", "1:"), dependant("t2", "2:")
	cmdFuncs["build-t1-v2"], cmdFuncs["build-t2-v2"] = dependant("t1", "1v2:"), dependant("t2", "2v2:")
	mk := func(suffix string) []*model.Target {
		d := fileTarget("d", "build-d", "d.txt")
		t1 := fileTarget("t1", "build-t1"+suffix, "t1.txt")
		t2 := fileTarget("t2", "build-t2"+suffix, "t2.txt")
		t1.Dependencies = append(t1.Dependencies, d.Label)
		t2.Dependencies = append(t2.Dependencies, d.Label)
		return []*model.Target{d, t1, t2}
	}
	ctx := context.Background()
	sym.ExploreSchedules(false) // the first build only sets the cache up
	e1, _ := fullExecutor(ctx, false, config.LoadOutputsAll, mk(""))
	comps1, err1 := e1.Execute(ctx)
	sym.Quiesce()
	sym.Assert(!exitsNonZero(comps1, err1), "C15.P.setup-first-build")
	sym.ProcessExit()
	sym.ExploreSchedules(true)
	// fresh checkout, both dependants edited; the dependency is unchanged (a cache hit)
	for _, f := range []string{"p/d.txt", "p/t1.txt", "p/t2.txt"} {
		_ = os.Remove(wsPath(f))
	}
	switch sym.Choice("lost_from_cache", 3) {
	case 1: // the dependency's blob
		cas := filepath.Join(cacheDir(), "cas")
		for _, name := range listDir(cas) {
			if b, err := os.ReadFile(filepath.Join(cas, name)); err == nil && string(b) == "D" {
				_ = os.Remove(filepath.Join(cas, name))
				sym.Reach("C15.P.blob-lost")
			}
		}
	case 2: // every target result
		for _, name := range listDir(filepath.Join(cacheDir(), "target")) {
			_ = os.Remove(filepath.Join(cacheDir(), "target", name))
		}
	}
	mode := modeOf(sym.Choice("mode", 2))
	before := len(cmdLog)
	e2, _ := fullExecutor(ctx, false, mode, mk("-v2"))
	comps2, err2 := e2.Execute(ctx)
	sym.Quiesce()
	sym.Assert(!exitsNonZero(comps2, err2), "C15.P.build-succeeds-in-both-modes")
	for f, want := range map[string]string{"p/t1.txt": "1v2:D", "p/t2.txt": "2v2:D"} {
		got, ok := readWS(f)
		sym.Assert(ok && got == want, "C15.P.dependants-saw-the-dependency-output")
	}
	dRuns := 0
	for _, c := range cmdLog[before:] {
		if c == "build-d" {
			dRuns++
		}
	}
	sym.Assert(dRuns <= 1, "C15.P.dependency-runs-at-most-once")
	sym.Reach("C15.P.parallel")
}

// The workspace may still hold a dependency's outputs from another state of the sources (an earlier
// checkout, a reverted edit). A dependant that executes must see the outputs of the *current* state
// in both modes - presence of a file at the output path says nothing about its content.
func VerifC15_M_stale_dependency_output() {
	w := newWorld()
	cmdModel["build-d"] = &cmdBehaviour{writes: map[string]string{"p/d.txt": "current"}}
	tcmd := func(prefix string) func() error {
		return func() error {
			b, err := os.ReadFile(wsPath("p/d.txt"))
			if err != nil {
				return err
			}
			return os.WriteFile(wsPath("p/t.txt"), []byte(prefix+string(b)), 0644)
		}
	}
	cmdFuncs["build-t"], cmdFuncs["build-t-v2"] = tcmd("1:"), tcmd("2:")
	mk := func(tCommand string) (*model.Target, *model.Target) {
		d := fileTarget("d", "build-d", "d.txt")
		t := fileTarget("t", tCommand, "t.txt")
		t.Dependencies = append(t.Dependencies, d.Label)
		return d, t
	}
	d1, t1 := mk("build-t")
	p1 := w.newProcess(true, config.LoadOutputsAll, d1, t1)
	_, e1 := p1.run(w.ctx, d1)
	_, e2 := p1.run(w.ctx, t1)
	sym.Assert(e1 == nil && e2 == nil, "C15.S.setup-first-build")
	// what the workspace holds at the dependency's output path before the next build
	switch sym.Choice("workspace_holds", 3) {
	case 0:
		_ = os.Remove(wsPath("p/d.txt"))
	case 1:
		_ = os.WriteFile(wsPath("p/d.txt"), []byte("stale"), 0644)
	}
	mode := modeOf(sym.Choice("mode", 2))
	d2, t2 := mk("build-t-v2")
	p2 := w.newProcess(true, mode, d2, t2)
	before := ran("build-d")
	_, e3 := p2.run(w.ctx, d2)
	_, e4 := p2.run(w.ctx, t2)
	sym.Assert(e3 == nil && e4 == nil, "C15.S.second-build-succeeds")
	got, ok := readWS("p/t.txt")
	sym.Assert(ok && got == "2:current", "C15.S.dependant-sees-current-dependency-output")
	sym.Assert(ran("build-d") == before, "C15.S.cached-dependency-is-not-re-executed")
	sym.Reach("C15.S.stale")
}
