//go:build verif

package execution

import (
	"os"
	"path/filepath"

	"grog/internal/config"
	"grog/internal/dag"
	"grog/internal/model"
	"grog/internal/zzverif/sym"
)

func modeOf(i int) config.LoadOutputsMode {
	return []config.LoadOutputsMode{config.LoadOutputsAll, config.LoadOutputsMinimal}[i]
}

// removeCasBlobs makes every cached blob irretrievable (the target result itself stays).
func removeCasBlobs() {
	casDir := filepath.Join(config.Global.GetWorkspaceCacheDirectory(), "cas")
	_ = os.RemoveAll(casDir)
}

// X1/X2/X3 + C02: the decision "restore or execute" over every combination of
// entry present / tainted / no-cache / cache enabled / load mode / blobs retrievable / command outcome
func VerifC13_X_force_execution() {
	w := newWorld()
	hasEntry := flag("has_entry")
	tainted := flag("tainted")
	noCache := flag("no_cache")
	enableCache := flag("enable_cache")
	mode := sym.Choice("mode", 2)
	blobsLost := flag("blobs_lost")
	secondFails := flag("second_run_fails")
	outputPresent := flag("output_still_in_workspace")

	cmdModel["build-t"] = &cmdBehaviour{writes: map[string]string{"p/out.txt": "v1"}}
	mk := func() *model.Target {
		t := fileTarget("t", "build-t", "out.txt")
		if noCache {
			// the tag list is not sorted: no-cache may stand anywhere in it
			t.Tags = [][]string{{model.TagNoCache}, {"slow", model.TagNoCache}, {model.TagNoCache, "docker", "a"}}[sym.Choice("no_cache_tag_position", 3)]
		}
		return t
	}
	if hasEntry {
		t1 := fileTarget("t", "build-t", "out.txt") // first build: ordinary cached build
		p1 := w.newProcess(true, config.LoadOutputsAll, t1)
		_, err := p1.run(w.ctx, t1)
		sym.Assert(err == nil, "C13.setup.first-build-succeeds")
	}
	if tainted {
		pt := w.newProcess(true, config.LoadOutputsAll, mk())
		sym.Assert(pt.e.taintCache.Taint(w.ctx, mk().Label) == nil, "C13.setup.taint-written")
	}
	if blobsLost {
		removeCasBlobs()
	}
	if !outputPresent {
		_ = os.Remove(wsPath("p/out.txt"))
	}
	cmdModel["build-t"].fail = secondFails
	t := mk()
	p := w.newProcess(enableCache, modeOf(mode), t)
	before := ran("build-t")
	res, err := p.run(w.ctx, t)
	executed := ran("build-t") - before

	// outputs are retrievable if the blob is still cached, or the right content already sits in the workspace
	retrievable := !blobsLost || outputPresent
	hit := hasEntry && !tainted && !noCache && enableCache && (mode == 1 || retrievable)
	if hit {
		sym.Assert(err == nil && res == dag.CacheHit, "C13.X1.valid-entry-is-restored")
		sym.Assert(executed == 0, "C02.only-invalidated-targets-execute")
		sym.Reach("C13.X.hit")
	} else {
		sym.Assert(executed == 1, "C13.X1.forced-execution-runs-command-exactly-once")
		sym.Assert(res != dag.CacheHit, "C13.X3.forced-execution-is-never-a-cache-hit")
		sym.Assert((err == nil) == !secondFails, "C13.X1.result-follows-command")
		sym.Reach("C13.X.executed")
	}
	// X2: the taint is consumed by a successful execution and only by that
	stillTainted, terr := p.e.taintCache.IsTainted(w.ctx, t.Label)
	sym.Assert(terr == nil, "C13.X2.taint-readable")
	if tainted {
		sym.Assert(stillTainted == secondFails, "C13.X2.taint-consumed-iff-execution-succeeded")
	} else {
		sym.Assert(!stillTainted, "C13.X2.no-taint-appears")
	}
	if err == nil {
		sym.Assert(t.OutputHash != "", "C13.X3.output-hash-set-for-dependants")
	}
}

// X3b: re-executing a forced target with identical outputs does not invalidate dependants:
// the output hash is a function of the output bytes only.
func VerifC13_X_output_hash_stable() {
	w := newWorld()
	kind := sym.Choice("kind", 3) // 0 tainted 1 no-cache 2 cache disabled
	same := flag("same_bytes")
	// which declared output carries the changing bytes: a plain file output, the bin output alone,
	// or the bin output next to an unchanged file output
	outKind := sym.Choice("changing_output", 3)
	cmdModel["build-t"] = &cmdBehaviour{writes: map[string]string{"p/out.txt": "v1", "p/other.txt": "const"}}
	mk := func() *model.Target {
		var t *model.Target
		switch outKind {
		case 0:
			t = fileTarget("t", "build-t", "out.txt")
		case 1:
			t = fileTarget("t", "build-t")
			t.BinOutput = model.NewOutput("file", "out.txt")
		default:
			t = fileTarget("t", "build-t", "other.txt")
			t.BinOutput = model.NewOutput("file", "out.txt")
		}
		if kind == 1 {
			t.Tags = []string{model.TagNoCache}
		}
		return t
	}
	t1 := mk()
	p1 := w.newProcess(kind != 2, config.LoadOutputsAll, t1)
	_, err1 := p1.run(w.ctx, t1)
	if kind == 0 {
		_ = p1.e.taintCache.Taint(w.ctx, t1.Label)
	}
	if !same {
		cmdModel["build-t"].writes["p/out.txt"] = "v2"
	}
	t2 := mk()
	p2 := w.newProcess(kind != 2, config.LoadOutputsAll, t2)
	before := ran("build-t")
	_, err2 := p2.run(w.ctx, t2)
	sym.Assert(err1 == nil && err2 == nil, "C13.X3.forced-builds-succeed")
	sym.Assert(ran("build-t") == before+1, "C13.X3.forced-target-executes-in-every-build")
	sym.Assert((t1.OutputHash == t2.OutputHash) == same, "C13.X3.output-hash-depends-on-output-bytes-only")
	sym.Reach("C13.X.hash")
}

// C14.O2: a failing output check forces execution even when a cached result exists
// (history: the checked external condition is established, cached, and later destroyed)
func VerifC14_O_failing_check_forces_execution() {
	w := newWorld()
	hasOutputs := flag("has_outputs")
	mode := sym.Choice("mode", 2)
	restores := flag("second_run_restores_condition")
	cmdModel["deploy"] = &cmdBehaviour{sets: []string{"service"}}
	mk := func() *model.Target {
		t := fileTarget("t", "deploy")
		if hasOutputs {
			t = fileTarget("t", "deploy", "out.txt")
			cmdModel["deploy"].writes = map[string]string{"p/out.txt": "v1"}
		}
		t.OutputChecks = []model.OutputCheck{{Command: "check:service"}}
		return t
	}
	// first build: the condition does not hold, the command establishes it, the result is cached
	t1 := mk()
	p1 := w.newProcess(true, config.LoadOutputsAll, t1)
	_, err1 := p1.run(w.ctx, t1)
	sym.Assert(err1 == nil && ran("deploy") == 1 && cacheEntryExists(p1, t1.ChangeHash), "C14.O2.setup-cached-while-condition-holds")
	// the external condition is destroyed behind grog's back
	extState["service"] = false
	if !restores {
		cmdModel["deploy"].sets = nil
	}
	t2 := mk()
	p2 := w.newProcess(true, modeOf(mode), t2)
	res, err := p2.run(w.ctx, t2)
	sym.Assert(ran("deploy") == 2, "C14.O2.failing-check-forces-execution-despite-cache-entry")
	sym.Assert(!(err == nil && res == dag.CacheHit), "C14.O2.failing-check-is-never-a-cache-hit")
	sym.Assert((err == nil) == restores, "C14.O3.build-succeeds-iff-checks-pass-after-execution")
	sym.Reach("C14.O.check-forces")
}
