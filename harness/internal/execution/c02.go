//go:build verif

package execution

import (
	"os"

	"grog/internal/config"
	"grog/internal/dag"
	"grog/internal/label"
	"grog/internal/model"
	"grog/internal/zzverif/sym"
)

// noop: an immediate rebuild restores from cache and runs nothing, whatever sits at the output path
func VerifC02_noop_file_output() {
	w := newWorld()
	content := sym.StringAlpha("content", 2, "ab")
	prior := sym.Choice("prior_state", 5) // 0 untouched 1 modified 2 deleted 3 parent directory deleted 4 truncated
	mode := sym.Choice("mode", 2)
	cmdModel["build-t"] = &cmdBehaviour{mkdirs: []string{"p/gen"}, writes: map[string]string{"p/gen/out.txt": content}}
	t1 := fileTarget("t", "build-t", "gen/out.txt")
	p1 := w.newProcess(true, config.LoadOutputsAll, t1)
	_, err1 := p1.run(w.ctx, t1)
	sym.Assert(err1 == nil, "C02.setup.first-build-succeeds")
	switch prior {
	case 1:
		_ = os.WriteFile(wsPath("p/gen/out.txt"), []byte("zzz"), 0644)
	case 2:
		_ = os.Remove(wsPath("p/gen/out.txt"))
	case 3:
		_ = os.RemoveAll(wsPath("p/gen"))
	case 4:
		_ = os.WriteFile(wsPath("p/gen/out.txt"), nil, 0644)
	}
	t2 := fileTarget("t", "build-t", "gen/out.txt")
	p2 := w.newProcess(true, modeOf(mode), t2)
	res, err := p2.run(w.ctx, t2)
	sym.Assert(err == nil && res == dag.CacheHit, "C02.noop.rebuild-is-a-cache-hit")
	sym.Assert(ran("build-t") == 1, "C02.noop.rebuild-executes-no-command")
	if mode == 0 {
		got, ok := readWS("p/gen/out.txt")
		sym.Assert(ok && got == content, "C02.noop.file-output-restored-byte-identical")
	}
	sym.Assert(t2.OutputHash == t1.OutputHash && t2.ChangeHash == t1.ChangeHash, "C02.noop.hashes-stable")
	sym.Reach("C02.noop.file")
}

// where: the decision does not depend on the checkout location
func VerifC02_where_checkout_location() {
	content := sym.StringAlpha("content", 2, "ab")
	var keys [2]string
	for i, name := range []string{"w", "somewhere-else"} {
		resetCommands()
		config.Global.Root = "/grogroot"
		config.Global.WorkspaceRoot = sym.TempDir(name)
		config.Global.OS, config.Global.Arch = "linux", "amd64"
		_ = os.MkdirAll(wsPath("p"), 0755)
		_ = os.WriteFile(wsPath("p/in.txt"), []byte(content), 0644)
		w := &world{ctx: newWorldCtx()}
		cmdModel["build-t"] = &cmdBehaviour{writes: map[string]string{"p/out.txt": "v"}}
		t := fileTarget("t", "build-t", "out.txt")
		t.Inputs = []string{"in.txt"}
		p := w.newProcess(true, config.LoadOutputsAll, t)
		_, err := p.run(w.ctx, t)
		sym.Assert(err == nil, "C02.where.build-succeeds")
		keys[i] = t.ChangeHash
	}
	sym.Assert(keys[0] == keys[1], "C02.where.cache-key-independent-of-checkout-location")
	sym.Reach("C02.where")
}

// cutoff: a dependant is restored from cache when its re-executed dependency reproduces identical
// outputs, and re-executed when the dependency's outputs change (also through an alias)
func VerifC02_cutoff_and_C01_dep() {
	w := newWorld()
	viaAlias := sym.Choice("alias_hops", 3) // 0: T depends on D directly, 1: through one alias, 2: through two
	sameOutput := flag("dependency_reproduces_identical_output")
	depOutKind := sym.Choice("dependency_output", 3) // 0 none, 1 a file, 2 a directory (two files, one nested)
	depHasOutput := depOutKind != 0
	mode := sym.Choice("mode", 2)
	dOut := "v1"
	mkGraph := func(dCommand string) (d *model.Target, tt *model.Target, nodes []model.BuildNode) {
		if depOutKind == 2 {
			d = fileTarget("d", dCommand)
			d.Outputs = append(d.Outputs, model.NewOutput("dir", "dd"))
		} else if depHasOutput {
			d = fileTarget("d", dCommand, "d.txt")
		} else {
			d = fileTarget("d", dCommand)
			d.Inputs = []string{"src.txt"}
		}
		nodes = append(nodes, d)
		cur := d.Label
		for h := 0; h < viaAlias; h++ {
			a := &model.Alias{Label: label.TL("p", []string{"a1", "a2"}[h]), Actual: cur}
			nodes = append(nodes, a)
			cur = a.Label
		}
		tt = fileTarget("t", "build-t", "t.txt")
		tt.Dependencies = []label.TargetLabel{cur}
		nodes = append(nodes, tt)
		return
	}
	_ = os.WriteFile(wsPath("p/src.txt"), []byte("s1"), 0644)
	dFile := "p/d.txt"
	if depOutKind == 2 {
		dFile = "p/dd/sub/d.txt"
	}
	for _, c := range []string{"build-d", "build-d-edited"} {
		cmdModel[c] = &cmdBehaviour{writes: map[string]string{dFile: dOut}}
		if depOutKind == 2 {
			cmdModel[c].mkdirs = []string{"p/dd/sub"}
			cmdModel[c].writes["p/dd/const.txt"] = "same"
		}
	}
	cmdModel["build-t"] = &cmdBehaviour{writes: map[string]string{"p/t.txt": "t"}}
	runAll := func(p *process, nodes []model.BuildNode) error {
		for _, n := range nodes { // nodes are in dependency order
			if tgt, ok := n.(*model.Target); ok {
				if _, err := p.run(w.ctx, tgt); err != nil {
					return err
				}
			}
		}
		return nil
	}
	d1, t1, nodes1 := mkGraph("build-d")
	p1 := w.newProcess(true, config.LoadOutputsAll, nodes1...)
	sym.Assert(runAll(p1, nodes1) == nil, "C02.cutoff.setup-first-build")
	// edit: the dependency's command changes (its key changes) ...
	if !sameOutput {
		if depHasOutput {
			cmdModel["build-d-edited"].writes[dFile] = "v2"
		} else {
			// an output-less dependency exposes its own change hash: edit its input instead
			_ = os.WriteFile(wsPath("p/src.txt"), []byte("s2"), 0644)
		}
	}
	cmd2 := "build-d-edited"
	if !depHasOutput && sameOutput {
		cmd2 = "build-d" // nothing changes at all for the output-less dependency
	}
	d2, t2, nodes2 := mkGraph(cmd2)
	p2 := w.newProcess(true, modeOf(mode), nodes2...)
	tRunsBefore := ran("build-t")
	sym.Assert(runAll(p2, nodes2) == nil, "C02.cutoff.second-build-succeeds")
	tExecuted := ran("build-t") - tRunsBefore
	if depHasOutput {
		sym.Assert(d2.ChangeHash != d1.ChangeHash, "C02.cutoff.edited-dependency-has-new-key")
	}
	if sameOutput {
		sym.Assert(t2.ChangeHash == t1.ChangeHash, "C02.cutoff.identical-dependency-output-keeps-dependant-key")
		sym.Assert(tExecuted == 0, "C02.cutoff.dependant-restored-when-dependency-output-unchanged")
	} else {
		sym.Assert(t2.ChangeHash != t1.ChangeHash, "C01.dep.changed-dependency-output-changes-dependant-key")
		sym.Assert(tExecuted == 1, "C01.dep.dependant-re-executes-when-dependency-output-changed")
	}
	sym.Reach("C02.cutoff")
}
