//go:build verif

package execution

import (
	"context"
	"fmt"
	"os"
	"os/exec"
	"path/filepath"

	"grog/internal/caching"
	"grog/internal/caching/backends"
	"grog/internal/config"
	"grog/internal/dag"
	"grog/internal/label"
	"grog/internal/model"
	"grog/internal/output"
	"grog/internal/zzverif/sym"
)

// C18 (fragment): the in-process consequences of SIGINT/SIGTERM. console.SetupCommand turns the
// signal into cancel() of the root context; that is the only thing the handler does, so the
// signal is modelled as cancel() of the context handed to Executor.Execute, delivered
//   - before Execute starts, or
//   - while a given command is running (choice per command), or
//   - at any visible scheduling point of the whole Execute run (a timer goroutine that the
//     delay-bounded scheduler may fire early at the cost of one deviation; -sched only).
// The whole real Executor.Execute runs: task UI stubbed, real worker pool, real walker, real
// task function, cache, registry; commands are slow (two steps with a yield in between) and
// are killed when their context is cancelled (exec.CommandContext behaviour).

type sigWorld struct {
	// plain fields on purpose: the harness's bookkeeping has no scheduling points of its own, so
	// "the signal has been delivered" and "this command has completed" change atomically
	root               context.Context
	cancel             context.CancelFunc
	delivering         bool
	fired              bool // cancel() of the root context has returned
	startedAfterSignal int
	notKilled          int
	interrupted        [4]bool
	finished           [4]bool // command ran to completion
	unfinishedAtSignal int     // commands that had not completed when the signal had been delivered
	total              int     // number of targets in the scenario
}

var sw *sigWorld

func (s *sigWorld) deliver() {
	if s.delivering {
		return
	}
	s.delivering = true
	s.cancel()
	s.fired = true
	for i, f := range s.finished {
		if !f && i < s.total {
			s.unfinishedAtSignal++
		}
	}
}

// slowCommand: writes a partial output, gives the rest of the system (and the signal) a chance to
// run, then either dies with its context or completes all writes.
func slowCommand(idx int, name string, writes map[string]string, sigChoice bool) func(ctx context.Context) ([]byte, error) {
	return func(ctx context.Context) ([]byte, error) {
		// verifRunCommand has just seen ctx.Err() == nil; no scheduling point since
		if sw.fired {
			// the shell was handed a context that the signal does not cancel
			sw.startedAfterSignal++
		}
		for p := range writes {
			_ = writeWS(p, "partial")
		}
		if sigChoice && sym.Choice("signal_during_"+name, 2) == 1 {
			sw.deliver()
		}
		sym.Yield()
		firedBefore := sw.fired
		err := ctx.Err()
		if firedBefore && err == nil {
			sw.notKilled++
		}
		if err != nil {
			sw.interrupted[idx] = true
			return []byte("signal: killed"), &exec.ExitError{}
		}
		for p, c := range writes {
			_ = writeWS(p, c)
		}
		sw.finished[idx] = true
		return nil, nil
	}
}

func writeWS(rel, content string) error {
	return os.WriteFile(wsPath(rel), []byte(content), 0644)
}

type c18Graph struct {
	targets []*model.Target
	extra   []model.BuildNode // aliases
	outs    map[string]string // workspace-relative output -> final content
	outOf   []string          // per target: its output
}

// a <- b (b depends on a, optionally through an alias), c independent
func c18Targets(viaAlias bool) *c18Graph {
	a := fileTarget("a", "build-a", "a.out")
	b := fileTarget("b", "build-b", "b.out")
	g := &c18Graph{outs: map[string]string{"p/a.out": "A", "p/b.out": "B", "p/c.out": "C"}, outOf: []string{"p/a.out", "p/b.out", "p/c.out"}}
	if viaAlias {
		x := &model.Alias{Label: label.TL("p", "x"), Actual: a.Label}
		b.Dependencies = append(b.Dependencies, x.Label)
		g.extra = append(g.extra, x)
	} else {
		b.Dependencies = append(b.Dependencies, a.Label)
	}
	c := fileTarget("c", "build-c", "c.out")
	g.targets = []*model.Target{a, b, c}
	if sym.Tier() == "thorough" {
		// a second chain: c <- d
		d := fileTarget("d", "build-d", "d.out")
		d.Dependencies = append(d.Dependencies, c.Label)
		g.targets = append(g.targets, d)
		g.outs["p/d.out"] = "D"
		g.outOf = append(g.outOf, "p/d.out")
	}
	return g
}

func (g *c18Graph) install(sigChoice bool) {
	cmdCtxFuncs["build-a"] = slowCommand(0, "build-a", map[string]string{"p/a.out": "A"}, sigChoice)
	cmdCtxFuncs["build-b"] = slowCommand(1, "build-b", map[string]string{"p/b.out": "B"}, sigChoice)
	cmdCtxFuncs["build-c"] = slowCommand(2, "build-c", map[string]string{"p/c.out": "C"}, sigChoice)
	cmdCtxFuncs["build-d"] = slowCommand(3, "build-d", map[string]string{"p/d.out": "D"}, sigChoice)
}

func c18Executor(ctx context.Context, failFast bool, nodes []*model.Target, extra ...model.BuildNode) (*Executor, backends.CacheBackend) {
	return fullExecutor(ctx, failFast, config.LoadOutputsAll, nodes, extra...)
}

// fullExecutor wires a real Executor the way cmds/build.go does (file-system cache, CAS, registry, graph with all nodes selected)
func fullExecutor(ctx context.Context, failFast bool, mode config.LoadOutputsMode, nodes []*model.Target, extra ...model.BuildNode) (*Executor, backends.CacheBackend) {
	be, err := backends.NewFileSystemCache(ctx)
	if err != nil {
		panic(err)
	}
	cas := caching.NewCas(be)
	reg := output.NewRegistry(ctx, cas)
	var bn []model.BuildNode
	for _, n := range nodes {
		n.Select()
		bn = append(bn, n)
	}
	for _, n := range extra {
		n.Select()
		bn = append(bn, n)
	}
	g := dag.NewDirectedGraphFromTargets(bn...)
	for _, n := range bn {
		for _, d := range n.GetDependencies() {
			if err := g.AddEdge(g.GetNodes()[d], n); err != nil {
				panic(err)
			}
		}
	}
	e := NewExecutor(caching.NewTargetResultCache(be), caching.NewTaintCache(be), reg, g, failFast, false, true, mode)
	return e, be
}

// exitsNonZero restates the decision of cmds/build.go after Execute returned (that file cannot
// be executed: it calls os.Exit and is wired to cobra).
func exitsNonZero(comps dag.CompletionMap, err error) bool {
	if err != nil {
		return true
	}
	return len(comps.GetErrors()) > 0
}

func c18Run(sigChoice bool, timerSignal bool) {
	w := newWorld()
	_ = w
	g := c18Targets(flag("dependency_behind_an_alias"))
	g.install(sigChoice)
	maxW := 2
	if sym.Tier() == "thorough" {
		maxW = 3
	}
	config.Global.NumWorkers = 1 + sym.Choice("workers", maxW)
	failFast := flag("fail_fast")
	root, cancel := context.WithCancel(context.Background())
	sw = &sigWorld{root: root, cancel: cancel, total: len(g.targets)}
	if sigChoice && flag("signal_before_execute") {
		sw.deliver()
	}
	if timerSignal {
		go func() {
			// delivered when nothing else can run, or (one deviation) before any visible step
			sym.ExternalEvent("SIGINT")
			sw.deliver()
		}()
	}
	e, be := c18Executor(root, failFast, g.targets, g.extra...)
	comps, err := e.Execute(root)
	sym.Quiesce()
	sym.Reach("C18.I0.execute-returned")
	signalled := sw.fired
	if signalled {
		sym.Reach("C18.I0.signal-delivered")
	}
	for _, k := range sw.interrupted {
		if k {
			sym.Reach("C18.I0.signal-killed-a-running-command")
		}
	}
	unfinished := sw.unfinishedAtSignal

	// I1: no further target is started after the signal, running shells are terminated
	sym.Assert(sw.startedAfterSignal == 0, "C18.I1.no-command-started-after-signal")
	sym.Assert(sw.notKilled == 0, "C18.I1.running-command-context-cancelled-by-signal")
	// I2: a build interrupted before its last command completed exits non-zero
	if signalled && unfinished > 0 {
		sym.Assert(exitsNonZero(comps, err), "C18.I2.interrupted-build-exits-non-zero")
	}
	if !exitsNonZero(comps, err) {
		// exit 0 only with every selected target built
		for p, c := range g.outs {
			got, ok := readWS(p)
			sym.Assert(ok && got == c, "C18.I2.exit-zero-implies-all-outputs-built")
		}
	}
	// ... and a target reported as successful has really been built (no "success" for work that never ran)
	for i, t := range g.targets {
		if c, ok := comps[t.Label]; ok && c.IsSuccess {
			got, present := readWS(g.outOf[i])
			sym.Assert(present && got == g.outs[g.outOf[i]], "C18.I2.target-reported-successful-was-built")
		}
	}
	// I3: no cache entry for interrupted (or otherwise unsuccessful) targets; whatever is recorded is complete
	for i, t := range g.targets {
		if sw.interrupted[i] && t.ChangeHash != "" {
			ok, xerr := be.Exists(context.Background(), "target", t.ChangeHash)
			sym.Assert(xerr == nil && !ok, "C18.I3.no-cache-entry-for-interrupted-target")
		}
		if !sw.finished[i] && t.ChangeHash != "" {
			ok, xerr := be.Exists(context.Background(), "target", t.ChangeHash)
			sym.Assert(xerr == nil && !ok, "C18.I3.no-cache-entry-for-target-whose-command-did-not-complete")
		}
	}
	auditCache("C18.I3")
	// ... and an entry recorded around the interrupt lists every declared output of its target (no
	// "successful" result assembled from the outputs that happened to be written before the signal)
	trc := caching.NewTargetResultCache(be)
	for _, t := range g.targets {
		if t.ChangeHash == "" {
			continue
		}
		if ok, _ := be.Exists(context.Background(), "target", t.ChangeHash); ok {
			tr, lerr := trc.Load(context.Background(), t.ChangeHash)
			sym.Assert(lerr == nil && tr != nil && len(tr.Outputs) == len(t.AllOutputs()), "C18.I3.recorded-entry-lists-every-declared-output")
		}
	}

	// I4: the next build on the same workspace (fresh process, no signal) succeeds and equals a clean build
	if !signalled {
		return
	}
	sym.ProcessExit()            // build.go: os.Exit(1); the follow-up build is a new process
	sym.ExploreSchedules(false) // ... run under the default scheduler
	g2 := c18Targets(len(g.extra) > 0)
	sw = &sigWorld{total: len(g2.targets)}
	sw.root, sw.cancel = context.WithCancel(context.Background())
	g2.install(false)
	e2, _ := c18Executor(sw.root, failFast, g2.targets, g2.extra...)
	comps2, err2 := e2.Execute(sw.root)
	sym.Quiesce()
	sym.Assert(!exitsNonZero(comps2, err2), "C18.I4.follow-up-build-succeeds")
	for p, c := range g2.outs {
		got, ok := readWS(p)
		sym.Assert(ok && got == c, "C18.I4.follow-up-build-equals-clean-build")
	}
}

// signal at the modelled delivery points (before Execute, during each command), default schedule
func VerifC18_I_signal_points() { c18Run(true, false) }

// signal at any visible scheduling point (timer goroutine fired early by the scheduler)
func VerifC18_I_signal_any_time() { c18Run(false, true) }

// signal while a dependency is being re-run inline for its dependant (load_outputs=minimal, the
// dependency is a cache hit whose blob has disappeared, the dependant has to execute)
func VerifC18_I_signal_during_dependency_rerun() {
	newWorld()
	config.Global.NumWorkers = 1 + sym.Choice("workers", 2)
	sym.ExploreSchedules(false)
	g1 := c18Targets(false)
	sw = &sigWorld{total: len(g1.targets)}
	sw.root, sw.cancel = context.WithCancel(context.Background())
	g1.install(false)
	e1, _ := c18Executor(sw.root, false, g1.targets)
	comps1, err1 := e1.Execute(sw.root)
	sym.Quiesce()
	sym.Assert(!exitsNonZero(comps1, err1), "C18.I5.setup-first-build")
	sym.ProcessExit()
	sym.ExploreSchedules(true)
	// fresh checkout, a's blob lost, b edited
	for _, f := range []string{"p/a.out", "p/b.out", "p/c.out"} {
		_ = os.Remove(wsPath(f))
	}
	cas := filepath.Join(cacheDir(), "cas")
	for _, name := range listDir(cas) {
		if b, err := os.ReadFile(filepath.Join(cas, name)); err == nil && string(b) == "A" {
			_ = os.Remove(filepath.Join(cas, name))
			sym.Reach("C18.I5.blob-lost")
		}
	}
	g := c18Targets(false)
	g.targets[1].Command = "build-b2"
	root, cancel := context.WithCancel(context.Background())
	sw = &sigWorld{root: root, cancel: cancel, total: len(g.targets)}
	g.install(true)
	cmdCtxFuncs["build-b2"] = slowCommand(1, "build-b2", map[string]string{"p/b.out": "B"}, true)
	e, be := fullExecutor(root, false, config.LoadOutputsMinimal, g.targets)
	comps, err := e.Execute(root)
	sym.Quiesce()
	sym.Assert(sw.startedAfterSignal == 0, "C18.I1.no-command-started-after-signal")
	sym.Assert(sw.notKilled == 0, "C18.I1.running-command-context-cancelled-by-signal")
	if sw.fired && sw.unfinishedAtSignal > 0 && (!sw.finished[1]) {
		sym.Assert(exitsNonZero(comps, err), "C18.I2.interrupted-build-exits-non-zero")
	}
	for i, t := range g.targets {
		if sw.interrupted[i] && t.ChangeHash != "" && i == 1 {
			ok, xerr := be.Exists(context.Background(), "target", t.ChangeHash)
			sym.Assert(xerr == nil && !ok, "C18.I3.no-cache-entry-for-interrupted-target")
		}
	}
	if sw.interrupted[0] {
		sym.Reach("C18.I5.signal-killed-the-dependency-rerun")
	}
	// (no store audit here: the scenario starts from a store that has lost a blob)
}

// C05 through the whole Executor.Execute: with fail-fast, once the build has returned (the failure was
// observed, the walk's context is cancelled) no queued command starts any more - the tasks are bound
// to the walk's context, not to a context that outlives the failure.
func VerifC05_E_failfast_whole_execute() {
	newWorld()
	config.Global.NumWorkers = 1 + sym.Choice("workers", 2)
	returned := false
	startedAfterReturn := 0
	mkCmd := func(name, out string, fails bool) {
		cmdCtxFuncs[name] = func(ctx context.Context) ([]byte, error) {
			if returned {
				startedAfterReturn++
			}
			sym.Yield()
			if fails {
				return []byte("boom"), &exec.ExitError{}
			}
			return nil, os.WriteFile(wsPath(out), []byte("x"), 0644)
		}
	}
	failing := sym.Choice("failing_target", 3)
	var ts []*model.Target
	for i := 0; i < 4; i++ {
		name := fmt.Sprintf("t%d", i)
		mkCmd("build-"+name, "p/"+name+".out", i == failing)
		ts = append(ts, fileTarget(name, "build-"+name, name+".out"))
	}
	ctx := context.Background()
	e, _ := fullExecutor(ctx, true, config.LoadOutputsAll, ts)
	comps, err := e.Execute(ctx)
	returned = true
	sym.Quiesce()
	sym.Assert(exitsNonZero(comps, err), "C05.E.fail-fast-build-exits-non-zero")
	sym.Assert(startedAfterReturn == 0, "C05.E.no-command-starts-after-a-fail-fast-build-returned")
	sym.Reach("C05.E.failfast")
}
