//go:build verif

package execution

import (
	"context"
	"os"
	"path/filepath"
	"strings"

	"grog/internal/caching"
	"grog/internal/caching/backends"
	"grog/internal/config"
	"grog/internal/dag"
	"grog/internal/hashing"
	"grog/internal/model"
	"grog/internal/proto/gen"
	"grog/internal/zzverif/sym"

	"google.golang.org/protobuf/proto"
)

func cacheDir() string { return config.Global.GetWorkspaceCacheDirectory() }

func listDir(dir string) []string {
	ents, err := os.ReadDir(dir)
	if err != nil {
		return nil
	}
	var names []string
	for _, e := range ents {
		names = append(names, e.Name())
	}
	return names
}

func casHas(d string) bool {
	_, err := os.Stat(filepath.Join(cacheDir(), "cas", d))
	return err == nil
}

// auditCache checks the persistent cache invariants on whatever state the file system is in.
func auditCache(id string) {
	// A1: every blob visible under a digest has exactly that content
	for _, name := range listDir(filepath.Join(cacheDir(), "cas")) {
		if strings.HasPrefix(name, "tmp-") {
			continue // temporary files are not addressed by digest
		}
		b, err := os.ReadFile(filepath.Join(cacheDir(), "cas", name))
		sym.Assert(err == nil, id+".A1.blob-readable")
		sym.Assert(sym.StrEq(hashing.HashBytes(b), name), id+".A1.blob-content-matches-digest")
	}
	// A2: a visible target result references only stored blobs
	for _, key := range listDir(filepath.Join(cacheDir(), "target")) {
		if strings.HasPrefix(key, "tmp-") {
			continue
		}
		b, err := os.ReadFile(filepath.Join(cacheDir(), "target", key))
		sym.Assert(err == nil, id+".A2.result-readable")
		tr := &gen.TargetResult{}
		uerr := proto.Unmarshal(b, tr)
		sym.Assert(uerr == nil, id+".A2.result-is-complete")
		if uerr != nil {
			continue
		}
		sym.Assert(sym.StrEq(tr.ChangeHash, key), id+".A2.result-stored-under-its-key")
		for _, o := range tr.Outputs {
			if f := o.GetFile(); f != nil {
				sym.Assert(casHas(f.GetDigest().GetHash()), id+".A2.file-blob-stored-before-result")
			}
			if d := o.GetDirectory(); d != nil {
				sym.Assert(casHas(d.GetTreeDigest().GetHash()), id+".A2.tree-blob-stored-before-result")
				tb, terr := os.ReadFile(filepath.Join(cacheDir(), "cas", d.GetTreeDigest().GetHash()))
				tree := &gen.Tree{}
				if terr == nil && proto.Unmarshal(tb, tree) == nil {
					dirs := append([]*gen.Directory{tree.Root}, tree.Children...)
					for _, dd := range dirs {
						for _, fn := range dd.GetFiles() {
							sym.Assert(casHas(fn.GetDigest().GetHash()), id+".A2.tree-file-blob-stored-before-result")
						}
					}
				}
			}
		}
	}
}

func c07Target() *model.Target {
	t := fileTarget("t", "build-t", "out.txt")
	t.Outputs = append(t.Outputs, model.NewOutput("dir", "dist"))
	return t
}

func c07Commands(content string) {
	cmdModel["build-t"] = &cmdBehaviour{mkdirs: []string{"p/dist/sub"},
		writes: map[string]string{"p/out.txt": content, "p/dist/a": "aa", "p/dist/sub/b": content}}
}

// crash: the process dies between any two file-system operations of a build
func VerifC07_crash_points() {
	w := newWorld()
	n := 1
	if sym.Tier() == "thorough" {
		n = 2
	}
	content := sym.StringAlpha("content", n, "ab")
	c07Commands(content)
	t := c07Target()
	p := w.newProcess(true, config.LoadOutputsAll, t)
	crashed := sym.RunToCrash(func() { _, _ = p.run(w.ctx, t) })
	auditCache("C07.crash")
	if crashed {
		sym.Reach("C07.crashed")
	} else {
		sym.Reach("C07.completed")
	}
	// A4: the next build on the same cache and workspace still produces the right outputs
	t2 := c07Target()
	p2 := w.newProcess(true, config.LoadOutputsAll, t2)
	_, err := p2.run(w.ctx, t2)
	sym.Assert(err == nil, "C07.A4.next-build-succeeds")
	got, ok := readWS("p/out.txt")
	sym.Assert(ok && sym.StrEq(got, content), "C07.A4.next-build-output-correct")
	gotb, okb := readWS("p/dist/sub/b")
	sym.Assert(okb && sym.StrEq(gotb, content), "C07.A4.next-build-directory-output-correct")
	auditCache("C07.after")
}

// crash while restoring: a build that is killed while loading outputs leaves a recoverable state
func VerifC07_crash_during_restore() {
	w := newWorld()
	c07Commands("v1")
	t := c07Target()
	p := w.newProcess(true, config.LoadOutputsAll, t)
	_, err := p.run(w.ctx, t)
	sym.Assert(err == nil, "C07.setup.first-build")
	_ = os.RemoveAll(wsPath("p/dist"))
	_ = os.Remove(wsPath("p/out.txt"))
	t2 := c07Target()
	p2 := w.newProcess(true, config.LoadOutputsAll, t2)
	crashed := sym.RunToCrash(func() { _, _ = p2.run(w.ctx, t2) })
	auditCache("C07.restore-crash")
	t3 := c07Target()
	p3 := w.newProcess(true, config.LoadOutputsAll, t3)
	res, err3 := p3.run(w.ctx, t3)
	sym.Assert(err3 == nil, "C07.A4.build-after-interrupted-restore-succeeds")
	got, ok := readWS("p/dist/sub/b")
	sym.Assert(ok && got == "v1", "C07.A4.outputs-correct-after-interrupted-restore")
	_ = res
	_ = crashed
	sym.Reach("C07.restore")
}

// faults: any single (or double) storage fault in the cache directory
func VerifC07_storage_faults() {
	w := newWorld()
	content := sym.StringAlpha("content", 1, "ab")
	c07Commands(content)
	t := c07Target()
	p := w.newProcess(true, config.LoadOutputsAll, t)
	nf := 1
	if sym.Tier() == "thorough" {
		nf = 2
	}
	sym.Faults(nf, cacheDir(), "")
	res, err := p.run(w.ctx, t)
	injected := sym.FaultsInjected()
	sym.Faults(0, "", "")
	auditCache("C07.fault")
	if err == nil {
		// success was reported: the entry must be complete and restorable
		sym.Assert(res == dag.CacheMiss, "C07.A3.first-build-is-an-execution")
		sym.Assert(cacheEntryExists(p, t.ChangeHash), "C07.A3.success-implies-entry-visible")
	} else {
		sym.Assert(injected > 0, "C07.A3.errors-only-from-faults")
		sym.Assert(!cacheEntryExists(p, t.ChangeHash), "C07.A3.failed-write-leaves-no-entry")
		sym.Reach("C07.fault.error")
	}
	// next build, no faults
	t2 := c07Target()
	p2 := w.newProcess(true, config.LoadOutputsAll, t2)
	_, err2 := p2.run(w.ctx, t2)
	sym.Assert(err2 == nil, "C07.A4.build-after-fault-succeeds")
	got, ok := readWS("p/dist/sub/b")
	sym.Assert(ok && sym.StrEq(got, content), "C07.A4.outputs-correct-after-fault")
	auditCache("C07.after-fault")
	sym.Reach("C07.fault")
	_ = context.Background
	_ = caching.NewCas
	_ = backends.NewFileSystemCache
}

// faults and losses while restoring: a cached result whose blobs cannot all be read (transient read
// fault, or a blob that disappeared from the store) must not be reported as restored with parts
// missing: the build falls back to execution and the workspace ends up correct
func VerifC07_restore_faults() {
	w := newWorld()
	content := "v1" // the damage, not the bytes, is what varies here
	c07Commands(content)
	t := c07Target()
	p := w.newProcess(true, config.LoadOutputsAll, t)
	_, err := p.run(w.ctx, t)
	sym.Assert(err == nil, "C07.setup.first-build")
	_ = os.RemoveAll(wsPath("p/dist"))
	_ = os.Remove(wsPath("p/out.txt"))
	cas := filepath.Join(cacheDir(), "cas")
	lost := false
	if flag("lose_a_blob") {
		names := listDir(cas)
		k := sym.Choice("lost_blob", 4)
		if k < len(names) {
			_ = os.Remove(filepath.Join(cas, names[k]))
			lost = true
		}
	} else {
		sym.Faults(1, cas, "open,read")
	}
	t2 := c07Target()
	p2 := w.newProcess(true, config.LoadOutputsAll, t2)
	_, err2 := p2.run(w.ctx, t2)
	injected := sym.FaultsInjected()
	sym.Faults(0, "", "")
	if lost || injected > 0 {
		sym.Reach("C07.restore-fault.damaged")
	}
	sym.Assert(err2 == nil, "C07.A4.build-over-damaged-store-succeeds")
	for f, want := range map[string]string{"p/out.txt": content, "p/dist/a": "aa", "p/dist/sub/b": content} {
		got, ok := readWS(f)
		sym.Assert(ok && sym.StrEq(got, want), "C07.A4.outputs-correct-over-damaged-store")
	}
	auditCache("C07.after-restore-fault")
	sym.Reach("C07.restore-fault")
}

// two targets of one build produce the same bytes; a storage fault hits the first blob write.
// The second target's result must not become visible while its blob is missing.
func VerifC07_shared_digest_fault() {
	w := newWorld()
	content := sym.StringAlpha("content", 1, "ab")
	cmdModel["build-1"] = &cmdBehaviour{writes: map[string]string{"p/one.txt": content}}
	cmdModel["build-2"] = &cmdBehaviour{writes: map[string]string{"p/two.txt": content}}
	t1 := fileTarget("t1", "build-1", "one.txt")
	t2 := fileTarget("t2", "build-2", "two.txt")
	p := w.newProcess(true, config.LoadOutputsAll, t1, t2)
	sym.Faults(1, filepath.Join(cacheDir(), "cas"), "")
	_, err1 := p.run(w.ctx, t1)
	injected := sym.FaultsInjected()
	sym.Faults(0, "", "")
	_, err2 := p.run(w.ctx, t2)
	auditCache("C07.shared")
	if err1 != nil {
		sym.Assert(injected > 0, "C07.A3.errors-only-from-faults")
		sym.Reach("C07.shared.first-failed")
	}
	sym.Assert(err2 == nil, "C07.A3.second-target-unaffected-by-earlier-fault")
	// next build restores both
	for _, f := range []string{"p/one.txt", "p/two.txt"} {
		_ = os.Remove(wsPath(f))
	}
	n1, n2 := fileTarget("t1", "build-1", "one.txt"), fileTarget("t2", "build-2", "two.txt")
	p2 := w.newProcess(true, config.LoadOutputsAll, n1, n2)
	_, e1 := p2.run(w.ctx, n1)
	_, e2 := p2.run(w.ctx, n2)
	sym.Assert(e1 == nil && e2 == nil, "C07.A4.build-after-fault-succeeds")
	got, ok := readWS("p/two.txt")
	sym.Assert(ok && sym.StrEq(got, content), "C07.A4.outputs-correct-after-fault")
	sym.Reach("C07.shared")
}
