//go:build verif

package execution

import (
	"context"
	"fmt"
	"os"
	"path/filepath"
	"sort"
	"strings"

	"grog/internal/config"
	"grog/internal/dag"
	"grog/internal/model"
	"grog/internal/zzverif/sym"
)

// Cross-validation of everything the execution harnesses stand on: the whole Executor.Execute
// (worker pool, walker, task function, cache, registry, file handler) over four builds of one
// workspace. Natively the commands are real shell commands run by the real runTargetCommand on
// a real disk with the real hashers and protobuf; under the engine the same command strings are
// looked up in the harness's command model and everything else is the engine's models. The
// transcript (errors, hit/miss per target, output contents, how often each command ran) must
// be identical.

type xcmd struct {
	name  string
	shell string
	model func() error
}

func xRunsLog() string { return wsPath("p/runs.log") }

// how often each command ran: natively from the log file the commands append to, under the engine from cmdLog
func xRuns(cmds []xcmd) string {
	counts := map[string]int{}
	if sym.Symbolic() {
		for _, c := range cmdLog {
			for _, x := range cmds {
				if x.shell == c {
					counts[x.name]++
				}
			}
		}
	} else {
		b, _ := os.ReadFile(xRunsLog())
		for _, l := range strings.Split(string(b), "\n") {
			if l != "" {
				counts[l]++
			}
		}
	}
	var parts []string
	for _, x := range cmds {
		parts = append(parts, fmt.Sprintf("%s=%d", x.name, counts[x.name]))
	}
	return strings.Join(parts, " ")
}

func xCommands() []xcmd {
	mk := func(name, in, out, prefix string) xcmd {
		return xcmd{name: name,
			shell: fmt.Sprintf("printf '%%s' '%s' > %s && cat %s >> %s && echo %s >> runs.log", prefix, out, in, out, name),
			model: func() error {
				b, err := os.ReadFile(wsPath("p/" + in))
				if err != nil {
					return err
				}
				return os.WriteFile(wsPath("p/"+out), []byte(prefix+string(b)), 0644)
			}}
	}
	return []xcmd{mk("a", "a.in", "a.out", "A:"), mk("b", "a.out", "b.out", "B:"), mk("c", "c.in", "c.out", "C:")}
}

func xTargets(cmds []xcmd) []*model.Target {
	a := fileTarget("a", cmds[0].shell, "a.out")
	a.Inputs = []string{"a.in"}
	b := fileTarget("b", cmds[1].shell, "b.out")
	b.Dependencies = append(b.Dependencies, a.Label)
	c := fileTarget("c", cmds[2].shell, "c.out")
	c.Inputs = []string{"c.in"}
	return []*model.Target{a, b, c}
}

func xBuild(tag string, cmds []xcmd) {
	ts := xTargets(cmds)
	ctx := context.Background()
	e, _ := c18Executor(ctx, false, ts)
	comps, err := e.Execute(ctx)
	sym.Quiesce()
	sym.Transcript(fmt.Sprintf("%s: err=%v", tag, err != nil))
	var lines []string
	for l, c := range comps {
		lines = append(lines, fmt.Sprintf("%s:   %s success=%v hit=%v", tag, l.String(), c.IsSuccess, c.CacheResult == dag.CacheHit))
	}
	sort.Strings(lines)
	for _, l := range lines {
		sym.Transcript(l)
	}
	for _, f := range []string{"a.out", "b.out", "c.out"} {
		got, ok := readWS("p/" + f)
		sym.Transcript(fmt.Sprintf("%s:   %s present=%v %q", tag, f, ok, got))
	}
	sym.Transcript(fmt.Sprintf("%s:   runs %s", tag, xRuns(cmds)))
}

func VerifXval_executor() {
	resetCommands()
	root := sym.TempDir("xw")
	config.Global.Root = filepath.Join(root, "grogroot")
	config.Global.WorkspaceRoot = filepath.Join(root, "ws")
	config.Global.OS, config.Global.Arch = "linux", "amd64"
	config.Global.NumWorkers = 2
	config.Global.DisableNonDeterministicLogging = true
	must := func(err error) {
		if err != nil {
			panic(err)
		}
	}
	must(os.MkdirAll(wsPath("p"), 0755))
	must(os.MkdirAll(config.Global.Root, 0755))
	must(os.WriteFile(wsPath("p/a.in"), []byte("1"), 0644))
	must(os.WriteFile(wsPath("p/c.in"), []byte("x"), 0644))
	cmds := xCommands()
	for _, c := range cmds {
		cmdFuncs[c.shell] = c.model
	}
	xBuild("clean", cmds)
	xBuild("noop", cmds)
	// edit a's input: a and (its output changed) b re-run, c is a hit
	must(os.WriteFile(wsPath("p/a.in"), []byte("2"), 0644))
	xBuild("edit-a", cmds)
	// lose an output and damage another: both are restored from the cache without running anything
	must(os.Remove(wsPath("p/b.out")))
	must(os.WriteFile(wsPath("p/c.out"), []byte("garbage"), 0644))
	xBuild("restore", cmds)
	// back to the first input: everything is a hit again (entries of the first build are still there)
	must(os.WriteFile(wsPath("p/a.in"), []byte("1"), 0644))
	xBuild("revert", cmds)
}
