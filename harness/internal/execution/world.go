//go:build verif

package execution

import (
	"context"
	"errors"
	"os"
	"os/exec"
	"path/filepath"

	"grog/internal/caching"
	"grog/internal/caching/backends"
	"grog/internal/config"
	"grog/internal/dag"
	"grog/internal/label"
	"grog/internal/model"
	"grog/internal/output"
	"grog/internal/worker"
	"grog/internal/zzverif/sym"
)

// ---- command model (the shell is environment) ------------------------------------------

type cmdBehaviour struct {
	fail    bool              // exits non-zero
	out     string            // stdout+stderr
	writes  map[string]string // workspace-relative path -> content written on success (and on failure if alsoOnFail)
	mkdirs  []string
	removes []string
	sets    []string // external conditions established on success
	unsets  []string // external conditions destroyed on success
}

var (
	cmdModel map[string]*cmdBehaviour
	cmdLog   []string
	// cmdFuncs: commands whose effect is computed when they run (deterministic functions of the workspace)
	cmdFuncs map[string]func() error
	// cmdCtxFuncs: long-running commands that observe their context (killed by CommandContext when it is cancelled)
	cmdCtxFuncs map[string]func(ctx context.Context) ([]byte, error)
)

func resetCommands() {
	cmdModel = map[string]*cmdBehaviour{}
	cmdFuncs = map[string]func() error{}
	cmdCtxFuncs = map[string]func(ctx context.Context) ([]byte, error){}
	cmdLog = nil
	extState = map[string]bool{}
	watchFiles = nil
	startSnapshot = nil
}

func ran(command string) int {
	n := 0
	for _, c := range cmdLog {
		if c == command {
			n++
		}
	}
	return n
}

// verifRunCommand replaces runTargetCommand (intercepted by the engine).
func verifRunCommand(ctx context.Context, target *model.Target, command string) ([]byte, error) {
	if err := ctx.Err(); err != nil {
		// os/exec: a command whose context is already done is not started
		return nil, err
	}
	cmdLog = append(cmdLog, command)
	snapshotAtStart(command)
	if handled, out, err := extCommand(command); handled {
		return out, err
	}
	if f := cmdCtxFuncs[command]; f != nil {
		return f(ctx)
	}
	if f := cmdFuncs[command]; f != nil {
		if err := f(); err != nil {
			return []byte(err.Error()), &exec.ExitError{}
		}
		return nil, nil
	}
	b := cmdModel[command]
	if b == nil {
		return nil, nil
	}
	if b.fail {
		return []byte(b.out), &exec.ExitError{}
	}
	root := config.Global.WorkspaceRoot
	for _, d := range b.mkdirs {
		_ = os.MkdirAll(filepath.Join(root, d), 0755)
	}
	for _, r := range b.removes {
		_ = os.RemoveAll(filepath.Join(root, r))
	}
	for p, c := range b.writes {
		if err := os.WriteFile(filepath.Join(root, p), []byte(c), 0644); err != nil {
			return []byte(err.Error()), &exec.ExitError{}
		}
	}
	for _, c := range b.sets {
		extState[c] = true
	}
	for _, c := range b.unsets {
		extState[c] = false
	}
	return []byte(b.out), nil
}

// ---- world ------------------------------------------------------------------------------

type world struct {
	ctx   context.Context
	graph *dag.DirectedTargetGraph
}

func newWorld() *world {
	resetCommands()
	config.Global.Root = "/grogroot"
	config.Global.WorkspaceRoot = sym.TempDir("w")
	config.Global.OS, config.Global.Arch = "linux", "amd64"
	if err := os.MkdirAll(filepath.Join(config.Global.WorkspaceRoot, "p"), 0755); err != nil {
		panic(err)
	}
	return &world{ctx: context.Background()}
}

func newWorldCtx() context.Context { return context.Background() }

// process models one grog invocation: fresh in-memory state over the persistent file system.
type process struct {
	e   *Executor
	be  backends.CacheBackend
	cas *caching.Cas
}

func (w *world) newProcess(enableCache bool, mode config.LoadOutputsMode, nodes ...model.BuildNode) *process {
	be, err := backends.NewFileSystemCache(w.ctx)
	if err != nil {
		panic(err)
	}
	cas := caching.NewCas(be)
	reg := output.NewRegistry(w.ctx, cas)
	g := dag.NewDirectedGraphFromTargets(nodes...)
	for _, n := range nodes {
		for _, d := range n.GetDependencies() {
			if err := g.AddEdge(g.GetNodes()[d], n); err != nil {
				panic(err)
			}
		}
	}
	w.graph = g
	e := NewExecutor(caching.NewTargetResultCache(be), caching.NewTaintCache(be), reg, g, false, false, enableCache, mode)
	return &process{e: e, be: be, cas: cas}
}

// run does for one target exactly what Executor.Execute's walk callback does, minus the worker pool.
func (p *process) run(ctx context.Context, t *model.Target) (dag.CacheResult, error) {
	binTools, err := p.e.getBinToolPaths(t)
	if err != nil {
		return dag.CacheMiss, err
	}
	ids := p.e.getDependencyOutputIdentifiers(t)
	if err := p.e.targetHasher.SetTargetChangeHash(t); err != nil {
		return dag.CacheMiss, err
	}
	res, err := p.e.getTaskFunc(ctx, t, binTools, ids)(func(worker.StatusUpdate) {})
	sym.Quiesce() // let the asynchronous taint removal finish
	return res, err
}

func fileTarget(name, command string, outs ...string) *model.Target {
	t := &model.Target{Label: label.TL("p", name), Command: command}
	for _, o := range outs {
		t.Outputs = append(t.Outputs, model.NewOutput("file", o))
	}
	return t
}

func wsPath(rel string) string { return filepath.Join(config.Global.WorkspaceRoot, rel) }

func readWS(rel string) (string, bool) {
	b, err := os.ReadFile(wsPath(rel))
	if err != nil {
		return "", false
	}
	return string(b), true
}

func isExitError(err error) bool {
	var ee *exec.ExitError
	var ce *CommandError
	return errors.As(err, &ee) || errors.As(err, &ce)
}

func cacheEntryExists(p *process, changeHash string) bool {
	ok, err := p.be.Exists(context.Background(), "target", changeHash)
	return err == nil && ok
}

// external conditions checked by output checks (e.g. "is the service deployed")
var extState map[string]bool

// commands of the form "set:<name>" establish an external condition, "check:<name>" passes iff it holds
func extCommand(command string) (handled bool, out []byte, err error) {
	if len(command) > 4 && command[:4] == "set:" {
		if extState == nil {
			extState = map[string]bool{}
		}
		extState[command[4:]] = true
		return true, nil, nil
	}
	if len(command) > 6 && command[:6] == "check:" {
		if extState[command[6:]] {
			return true, []byte("ok\n"), nil
		}
		return true, []byte("missing\n"), &exec.ExitError{}
	}
	return false, nil, nil
}

// startSnapshot records, at the moment a command starts, which of the watched workspace files exist
// (used to check that dependency outputs are present when a dependant's command runs)
var (
	watchFiles    []string
	startSnapshot map[string]map[string]string
)

func snapshotAtStart(command string) {
	if len(watchFiles) == 0 {
		return
	}
	if startSnapshot == nil {
		startSnapshot = map[string]map[string]string{}
	}
	m := map[string]string{}
	for _, f := range watchFiles {
		if c, ok := readWS(f); ok {
			m[f] = c
		}
	}
	startSnapshot[command] = m
}
