//go:build verif

package execution

import (
	"fmt"
	"os"

	"grog/internal/config"
	"grog/internal/dag"
	"grog/internal/model"
	"grog/internal/zzverif/sym"
)

type c01State struct {
	cmd   int    // which command text
	input string // content of the input file
	out   int    // which declared output name
}

var c01Outs = []string{"o1.txt", "o2.txt"}

func (s c01State) command() string { return fmt.Sprintf("gen%d>%s", s.cmd, c01Outs[s.out]) }

// what a from-scratch build of state s produces
func (s c01State) expected() string { return fmt.Sprintf("gen%d|", s.cmd) + s.input }

func (s c01State) sameAs(o c01State) bool {
	return sym.And(s.cmd == o.cmd && s.out == o.out, sym.StrEq(s.input, o.input))
}

// Incremental = clean over every edit history of length 3 with one persistent cache:
// after each build the declared output is byte-identical to what a from-scratch build of the
// current sources produces, and a cached result is served only to a state that produced it.
func VerifC01_history() {
	w := newWorld()
	n := 3
	mode := sym.Choice("mode", 2)
	states := make([]c01State, n)
	for i := range states {
		states[i] = c01State{cmd: sym.Choice(fmt.Sprintf("cmd_%d", i), 2), out: sym.Choice(fmt.Sprintf("out_%d", i), 2),
			input: sym.StringNAlpha(fmt.Sprintf("input_%d", i), 1, "ab")}
	}
	for c := 0; c < 2; c++ {
		for o := range c01Outs {
			c, o := c, o
			cmdFuncs[fmt.Sprintf("gen%d>%s", c, c01Outs[o])] = func() error {
				in, err := os.ReadFile(wsPath("p/in.txt"))
				if err != nil {
					return err
				}
				return os.WriteFile(wsPath("p/"+c01Outs[o]), []byte(fmt.Sprintf("gen%d|", c)+string(in)), 0644)
			}
		}
	}
	for i, s := range states {
		if err := os.WriteFile(wsPath("p/in.txt"), []byte(s.input), 0644); err != nil {
			panic(err)
		}
		t := fileTarget("t", s.command(), c01Outs[s.out])
		t.Inputs = []string{"in.txt"}
		m := config.LoadOutputsAll
		if i == n-1 {
			m = modeOf(mode)
		}
		p := w.newProcess(true, m, t)
		before := ran(s.command())
		res, err := p.run(w.ctx, t)
		sym.Assert(err == nil, "C01.history.build-succeeds")
		executed := ran(s.command()) - before
		builtBefore := false
		for j := 0; j < i; j++ {
			builtBefore = sym.Or(builtBefore, s.sameAs(states[j]))
		}
		// a cached result is never served to a state that did not produce it
		sym.Assert(sym.Implies(res == dag.CacheHit, builtBefore), "C01.gate.cache-hit-only-for-a-previously-built-identical-state")
		sym.Assert(sym.Implies(builtBefore, executed == 0), "C01.history.unchanged-state-is-not-executed")
		sym.Assert(sym.Implies(sym.Not(builtBefore), executed == 1), "C01.history.changed-state-is-executed")
		if m == config.LoadOutputsAll {
			got, ok := readWS("p/" + c01Outs[s.out])
			sym.Assert(ok, "C01.history.declared-output-exists")
			sym.Assert(sym.StrEq(got, s.expected()), "C01.history.output-identical-to-clean-build")
		}
	}
	sym.Reach("C01.history")
}

// the result entry is written under the target's key and names the digest of the bytes that were
// at the output path when it was written; a later hit restores exactly those bytes
func VerifC01_write_and_restore() {
	w := newWorld()
	content := sym.StringAlpha("content", 2, "ab")
	cmdModel["build-t"] = &cmdBehaviour{writes: map[string]string{"p/out.txt": content}}
	t := fileTarget("t", "build-t", "out.txt")
	p := w.newProcess(true, config.LoadOutputsAll, t)
	_, err := p.run(w.ctx, t)
	sym.Assert(err == nil, "C01.write.build-succeeds")
	tr, lerr := p.e.targetCache.Load(w.ctx, t.ChangeHash)
	sym.Assert(lerr == nil && tr != nil, "C01.write.entry-stored-under-change-hash")
	if tr == nil {
		return
	}
	sym.Assert(tr.ChangeHash == t.ChangeHash && tr.OutputHash == t.OutputHash, "C01.write.entry-records-hashes")
	sym.Assert(len(tr.Outputs) == 1 && tr.Outputs[0].GetFile().GetPath() == "out.txt", "C01.write.entry-lists-declared-outputs")
	blob, berr := p.cas.LoadBytes(w.ctx, tr.Outputs[0].GetFile().GetDigest().GetHash())
	sym.Assert(berr == nil && string(blob) == content, "C01.write.blob-holds-the-output-bytes")
	// another state (different declared output) must not be served this entry
	t2 := fileTarget("t", "build-t", "other.txt")
	cmdModel["build-t"].writes["p/other.txt"] = "x"
	p2 := w.newProcess(true, config.LoadOutputsAll, t2)
	res2, err2 := p2.run(w.ctx, t2)
	sym.Assert(err2 == nil && res2 != dag.CacheHit, "C01.gate.changed-output-declaration-is-not-a-hit")
	sym.Reach("C01.write")
	_ = model.TagNoCache
}

// The output hash a dependant's key is built from identifies *which* output has *which* bytes and
// mode: two runs of a target whose outputs differ only in the assignment of contents to paths
// (swapped files), or only in an executable bit, have different output hashes; identical runs have
// the same. (A hash over the content digests alone would serve dependants a stale result.)
func VerifC01_output_hash_identity() {
	w := newWorld()
	variant := sym.Choice("second_run", 4) // 0 identical, 1 contents swapped, 2 one file becomes executable, 3 one content changed
	pick := func(name string) string { return []string{"a", "b"}[sym.Choice(name, 2)] }
	c1, c2 := pick("content_1"), pick("content_2")
	run := func(command string, a, b string, execB bool) *model.Target {
		cmdFuncs[command] = func() error {
			if err := os.WriteFile(wsPath("p/o1.txt"), []byte(a), 0644); err != nil {
				return err
			}
			mode := os.FileMode(0644)
			if execB {
				mode = 0755
			}
			_ = os.Remove(wsPath("p/o2.txt"))
			return os.WriteFile(wsPath("p/o2.txt"), []byte(b), mode)
		}
		t := fileTarget("t", command, "o1.txt", "o2.txt")
		p := w.newProcess(true, config.LoadOutputsAll, t)
		_, err := p.run(w.ctx, t)
		sym.Assert(err == nil, "C01.dep.setup-build-succeeds")
		return t
	}
	t1 := run("gen-1", c1, c2, false)
	var t2 *model.Target
	same := false
	switch variant {
	case 0:
		t2 = run("gen-2", c1, c2, false)
		same = true
	case 1:
		t2 = run("gen-2", c2, c1, false)
		same = sym.StrEq(c1, c2)
	case 2:
		t2 = run("gen-2", c1, c2, true)
	default:
		c3 := pick("content_3")
		t2 = run("gen-2", c1, c3, false)
		same = sym.StrEq(c2, c3)
	}
	sym.Assert(sym.Iff(same, sym.StrEq(t1.OutputHash, t2.OutputHash)), "C01.dep.output-hash-identifies-paths-bytes-and-modes")
	sym.Reach("C01.dep.output-hash-identity")
}

// A bin output is executable after a clean build (grog marks it, whatever mode the command left);
// a later build that restores it from the cache must leave it executable as well.
func VerifC01_bin_output_restored_executable() {
	w := newWorld()
	cmdModel["build-tool"] = &cmdBehaviour{writes: map[string]string{"p/tool.sh": "#!/bin/sh"}} // written 0644
	mk := func() *model.Target {
		t := fileTarget("tool", "build-tool")
		t.BinOutput = model.NewOutput("file", "tool.sh")
		return t
	}
	isExec := func() bool {
		info, err := os.Stat(wsPath("p/tool.sh"))
		return err == nil && info.Mode()&0111 != 0
	}
	t1 := mk()
	p1 := w.newProcess(true, config.LoadOutputsAll, t1)
	_, err := p1.run(w.ctx, t1)
	sym.Assert(err == nil && isExec(), "C01.bin.executable-after-clean-build")
	switch sym.Choice("workspace_before_second_build", 3) {
	case 0:
		_ = os.Remove(wsPath("p/tool.sh"))
	case 1:
		_ = os.Remove(wsPath("p/tool.sh"))
		_ = os.WriteFile(wsPath("p/tool.sh"), []byte("edited by hand"), 0644)
	}
	t2 := mk()
	p2 := w.newProcess(true, modeOf(sym.Choice("mode", 2)), t2)
	res, err2 := p2.run(w.ctx, t2)
	sym.Assert(err2 == nil && res == dag.CacheHit, "C01.bin.second-build-is-a-hit")
	if modeOf(sym.Choice("mode", 2)) == config.LoadOutputsAll {
		got, ok := readWS("p/tool.sh")
		sym.Assert(ok && got == "#!/bin/sh" && isExec(), "C01.bin.restored-bin-output-is-executable")
	}
	sym.Reach("C01.bin")
}
