//go:build verif

package hashing

import (
	"os"
	"path/filepath"

	"grog/internal/config"
	"grog/internal/label"
	"grog/internal/model"
	"grog/internal/zzverif/sym"
)

// Alphabets contain the separator characters the key construction uses (",", "=", ":",
// "_", "/") so that boundary-shift collisions are inside the search space.
const (
	txtAlpha  = "ab,=:_/"
	nameAlpha = "ab"   // input file names: no separators ('/' would change the directory)
	hexAlpha  = "0a"   // dependency output digests are hex strings
	pkgAlpha  = "ab"
)

func slen() int {
	if sym.Tier() == "thorough" {
		return 4
	}
	return 3
}

type tstate struct {
	pkg, name, cmd   string
	inputs           []string
	outTypes         []int // 0 file 1 dir 2 docker
	outIDs           []string
	bin              string
	deps             []string
	fpK, fpV         []string
	multi            bool
	os, arch         string
	platforms        []string // declared platform restriction (selection only: not part of the key's platform component)
}

func outType(i int) string { return [...]string{"file", "dir", "docker"}[i] }

func (s *tstate) target() model.Target {
	t := model.Target{Label: label.TargetLabel{Package: s.pkg, Name: s.name}, Command: s.cmd}
	t.Inputs = append([]string{}, s.inputs...)
	for i := range s.outIDs {
		t.Outputs = append(t.Outputs, model.NewOutput(outType(s.outTypes[i]), s.outIDs[i]))
	}
	if s.bin != "" {
		t.BinOutput = model.NewOutput("file", s.bin)
	}
	if len(s.fpK) > 0 {
		t.Fingerprint = map[string]string{}
		for i := range s.fpK {
			t.Fingerprint[s.fpK[i]] = s.fpV[i]
		}
	}
	if s.multi {
		t.Tags = []string{model.TagMultiplatformCache}
	}
	t.Platforms = append([]string{}, s.platforms...)
	return t
}

func (s *tstate) defKey() string {
	config.Global.OS, config.Global.Arch = s.os, s.arch
	k, err := hashTargetDefinition(s.target(), append([]string{}, s.deps...))
	sym.Assert(err == nil, "C09.def.no-error")
	return k
}

// base returns a concrete baseline state; harnesses overwrite the components under test.
func base() *tstate {
	return &tstate{pkg: "p", name: "t", cmd: "c", inputs: []string{"i"}, outTypes: []int{0}, outIDs: []string{"o"},
		deps: []string{"0a"}, fpK: []string{"k"}, fpV: []string{"v"}, os: "l", arch: "x"}
}

func str(n string) string { return sym.StringNAlpha(n, slen(), txtAlpha) }

// ---- single-component sensitivity: states differing in exactly one component get different keys

func neSingle(id string, mut func(s *tstate, x string), alpha string) {
	a, b := base(), base()
	x1 := sym.StringNAlpha("x1", slen(), alpha)
	x2 := sym.StringNAlpha("x2", slen(), alpha)
	sym.Assume(sym.Not(sym.StrEq(x1, x2)))
	mut(a, x1)
	mut(b, x2)
	sym.Reach(id)
	sym.Assert(a.defKey() != b.defKey(), id)
}

func VerifC09_ne_package() { neSingle("C09.ne.single-package", func(s *tstate, x string) { s.pkg = x }, pkgAlpha+"/") }
func VerifC09_ne_name()    { neSingle("C09.ne.single-name", func(s *tstate, x string) { s.name = x }, "ab_") }
func VerifC09_ne_command() { neSingle("C09.ne.single-command", func(s *tstate, x string) { s.cmd = x }, txtAlpha) }
// commands are hashed verbatim: layout whitespace (indentation, blank lines, trailing blanks) is part
// of a shell script (here-documents, quoted multi-line strings)
func VerifC09_ne_command_layout() {
	neSingle("C09.ne.single-command-layout", func(s *tstate, x string) { s.cmd = x }, "a \n\t")
}
func VerifC09_ne_os()      { neSingle("C09.ne.single-os", func(s *tstate, x string) { s.os = x }, "ab") }
func VerifC09_ne_arch()    { neSingle("C09.ne.single-arch", func(s *tstate, x string) { s.arch = x }, "ab") }
func VerifC09_ne_input() {
	neSingle("C09.ne.single-input-name", func(s *tstate, x string) { s.inputs = []string{"i", x} }, nameAlpha)
}
func VerifC09_ne_outid() {
	neSingle("C09.ne.single-output-id", func(s *tstate, x string) { s.outIDs = []string{x} }, "ab/")
}
func VerifC09_ne_dep() {
	neSingle("C09.ne.single-dep-digest", func(s *tstate, x string) { s.deps = []string{"0a", x} }, hexAlpha)
}
func VerifC09_ne_fpval() {
	neSingle("C09.ne.single-fingerprint-value", func(s *tstate, x string) { s.fpV = []string{x} }, "ab")
}
func VerifC09_ne_fpkey() {
	neSingle("C09.ne.single-fingerprint-key", func(s *tstate, x string) { s.fpK = []string{x} }, "ab")
}
func VerifC09_ne_bin() {
	neSingle("C09.ne.single-bin-output", func(s *tstate, x string) { s.bin = x }, "ab/")
}

func VerifC09_ne_outtype() {
	a, b := base(), base()
	a.outTypes = []int{sym.Choice("t1", 3)}
	b.outTypes = []int{sym.Choice("t2", 3)}
	if a.outTypes[0] == b.outTypes[0] {
		return
	}
	sym.Reach("C09.ne.single-output-type")
	sym.Assert(a.defKey() != b.defKey(), "C09.ne.single-output-type")
}

// (type, identifier) pairs are hashed as pairs: an identifier that itself looks like "<type>::rest" must
// not collide with another type's identifier "rest" (identifiers assembled from the type names)
func VerifC09_ne_output_type_vs_identifier() {
	a, b := base(), base()
	prefixes := []string{"", "file::", "dir::", "docker::"}
	t1, t2 := sym.Choice("t1", 3), sym.Choice("t2", 3)
	id1 := prefixes[sym.Choice("p1", 4)] + sym.StringNAlpha("x1", 2, "a:")
	id2 := prefixes[sym.Choice("p2", 4)] + sym.StringNAlpha("x2", 2, "a:")
	sym.Assume(id1 != "" && id2 != "")
	a.outTypes, a.outIDs = []int{t1}, []string{id1}
	b.outTypes, b.outIDs = []int{t2}, []string{id2}
	same := sym.And(t1 == t2, sym.StrEq(id1, id2))
	sym.Reach("C09.ne.output-type-vs-identifier")
	sym.Assert(sym.Iff(same, a.defKey() == b.defKey()), "C09.ne.output-type-and-identifier-hashed-as-a-pair")
}

func VerifC09_platform() {
	// platform matters unless multiplatform-cache is set
	a, b := base(), base()
	a.os = sym.StringNAlpha("os1", 2, "ab")
	b.os = sym.StringNAlpha("os2", 2, "ab")
	a.arch = sym.StringNAlpha("ar1", 2, "ab")
	b.arch = sym.StringNAlpha("ar2", 2, "ab")
	// a platform is os/arch with both parts non-empty and separator free
	for _, s := range []string{a.os, b.os, a.arch, b.arch} {
		sym.Assume(sym.Not(sym.StrEq(s, "")))
	}
	differ := sym.Or(sym.Not(sym.StrEq(a.os, b.os)), sym.Not(sym.StrEq(a.arch, b.arch)))
	sym.Assume(differ)
	// a target that restricts the platforms it may be built on is still keyed by the platform it IS built on
	if sym.Choice("declares_platforms", 2) == 1 {
		a.platforms, b.platforms = []string{"l/x", "l/y"}, []string{"l/x", "l/y"}
	}
	sym.Assert(a.defKey() != b.defKey(), "C09.ne.platform")
	a.multi, b.multi = true, true
	sym.Assert(a.defKey() == b.defKey(), "C09.eq.multiplatform-ignores-platform")
	// the tag itself separates key spaces (a multiplatform key is not a platform key)
	c := base()
	sym.Reach("C09.platform")
	_ = c
}

// ---- order independence

func VerifC09_eq_perm_inputs() {
	a, b := base(), base()
	i1, i2 := sym.StringNAlpha("i1", slen(), nameAlpha), sym.StringNAlpha("i2", slen(), nameAlpha)
	a.inputs, b.inputs = []string{i1, "i", i2}, []string{i2, i1, "i"}
	sym.Reach("C09.eq.perm-inputs")
	sym.Assert(a.defKey() == b.defKey(), "C09.eq.perm-inputs")
}

func VerifC09_eq_perm_outputs() {
	a, b := base(), base()
	o1, o2 := sym.StringNAlpha("o1", 2, "ab/"), sym.StringNAlpha("o2", 2, "ab/")
	t1, t2 := sym.Choice("t1", 3), sym.Choice("t2", 3)
	a.outIDs, b.outIDs = []string{o1, o2}, []string{o2, o1}
	a.outTypes, b.outTypes = []int{t1, t2}, []int{t2, t1}
	sym.Reach("C09.eq.perm-outputs")
	sym.Assert(a.defKey() == b.defKey(), "C09.eq.perm-outputs")
}

func VerifC09_eq_perm_deps() {
	a, b := base(), base()
	d1, d2 := sym.StringNAlpha("d1", slen(), hexAlpha), sym.StringNAlpha("d2", slen(), hexAlpha)
	a.deps, b.deps = []string{d1, "0a", d2}, []string{d2, d1, "0a"}
	sym.Reach("C09.eq.perm-deps")
	sym.Assert(a.defKey() == b.defKey(), "C09.eq.perm-deps")
}

// order independence also for elements that differ only in case (an ordering that is not total on
// the elements would let the declaration order through)
func VerifC09_eq_perm_case_variants() {
	a, b := base(), base()
	x, y := sym.StringNAlpha("x", 2, "aA"), sym.StringNAlpha("y", 2, "aA")
	a.inputs, b.inputs = []string{x, y}, []string{y, x}
	a.outIDs, b.outIDs = []string{x, y}, []string{y, x}
	a.outTypes, b.outTypes = []int{0, 0}, []int{0, 0}
	sym.Reach("C09.eq.perm-case-variants")
	sym.Assert(a.defKey() == b.defKey(), "C09.eq.perm-case-variants")
}

func VerifC09_eq_maporder() {
	a := base()
	k1, k2 := sym.StringNAlpha("k1", 2, "ab"), sym.StringNAlpha("k2", 2, "ab")
	v1, v2 := sym.StringNAlpha("v1", 2, "ab"), sym.StringNAlpha("v2", 2, "ab")
	a.fpK, a.fpV = []string{k1, k2, "z"}, []string{v1, v2, "w"}
	sym.MapOrder(true)
	x := a.defKey()
	y := a.defKey()
	sym.Reach("C09.eq.maporder")
	sym.Assert(x == y, "C09.eq.map-iteration-order")
}

func VerifC09_eq_unrelated() {
	a := base()
	ta, tb := a.target(), a.target()
	tb.Tags = []string{sym.StringNAlpha("tag", 3, "ab-")}
	sym.Assume(tb.Tags[0] != model.TagMultiplatformCache)
	tb.EnvironmentVariables = map[string]string{"E": sym.StringNAlpha("env", 2, "ab")}
	tb.Timeout = 5
	tb.SourceFilePath = sym.StringNAlpha("src", 3, "ab/")
	tb.IsSelected = true
	tb.UnresolvedInputs = []string{"*.go"}
	config.Global.OS, config.Global.Arch = "l", "x"
	ka, err1 := hashTargetDefinition(ta, []string{"0a"})
	kb, err2 := hashTargetDefinition(tb, []string{"0a"})
	sym.Reach("C09.eq.unrelated")
	sym.Assert(err1 == nil && err2 == nil && ka == kb, "C09.eq.unrelated-fields-ignored")
}

// ---- boundary shifts between two adjacent components of the key stream

func neAdjacent(id string, mut func(s *tstate, x, y string), ax, ay string) {
	a, b := base(), base()
	x1, y1 := sym.StringNAlpha("x1", slen(), ax), sym.StringNAlpha("y1", slen(), ay)
	x2, y2 := sym.StringNAlpha("x2", slen(), ax), sym.StringNAlpha("y2", slen(), ay)
	sym.Assume(sym.Or(sym.Not(sym.StrEq(x1, x2)), sym.Not(sym.StrEq(y1, y2))))
	mut(a, x1, y1)
	mut(b, x2, y2)
	sym.Reach(id)
	sym.Assert(a.defKey() != b.defKey(), id)
}

func VerifC09_adj_name_command() {
	neAdjacent("C09.ne.adjacent-name-command", func(s *tstate, x, y string) { s.name, s.cmd = x, y }, "ab_", txtAlpha)
}
func VerifC09_adj_command_inputs() {
	neAdjacent("C09.ne.adjacent-command-inputs", func(s *tstate, x, y string) { s.cmd, s.inputs = x, []string{y} }, txtAlpha, nameAlpha)
}
func VerifC09_adj_inputs_outputs() {
	neAdjacent("C09.ne.adjacent-inputs-outputs", func(s *tstate, x, y string) { s.inputs, s.outIDs = []string{x}, []string{y} }, nameAlpha+":", "ab/:")
}
func VerifC09_adj_outputs_deps() {
	neAdjacent("C09.ne.adjacent-outputs-deps", func(s *tstate, x, y string) { s.outIDs, s.deps = []string{x}, []string{y} }, "a0/", hexAlpha)
}
func VerifC09_adj_deps_fingerprint() {
	neAdjacent("C09.ne.adjacent-deps-fingerprint", func(s *tstate, x, y string) { s.deps, s.fpK = []string{x}, []string{y} }, hexAlpha, "a0")
}
func VerifC09_adj_fp_key_value() {
	neAdjacent("C09.ne.adjacent-fingerprint-key-value", func(s *tstate, x, y string) { s.fpK, s.fpV = []string{x}, []string{y} }, "ab=", "ab=")
}
// ... with keys and values long enough to contain something that looks like the other side's framing
// ("a" -> "b=1:c" against "a=5:b" -> "c"): pieces symbolic, digits chosen
func VerifC09_adj_fp_key_value_framing_lookalike() {
	a, b := base(), base()
	digit := func(n string) string { return []string{"1", "3", "5"}[sym.Choice(n, 3)] }
	s1, s2 := sym.StringNAlpha("s1", 1, "bc"), sym.StringNAlpha("s2", 1, "bc")
	t1, t2 := sym.StringNAlpha("t1", 1, "bc"), sym.StringNAlpha("t2", 1, "bc")
	k1, v1 := "a", s1+"="+digit("n")+":"+s2
	k2, v2 := "a="+digit("m")+":"+t1, t2
	a.fpK, a.fpV = []string{k1}, []string{v1}
	b.fpK, b.fpV = []string{k2}, []string{v2}
	sym.Reach("C09.ne.adjacent-fingerprint-framing-lookalike")
	sym.Assert(a.defKey() != b.defKey(), "C09.ne.adjacent-fingerprint-key-value")
}
func VerifC09_adj_fp_platform() {
	neAdjacent("C09.ne.adjacent-fingerprint-platform", func(s *tstate, x, y string) { s.fpV, s.os = []string{x}, y }, "ab/", "ab")
}
func VerifC09_adj_list_elements() {
	// element boundary inside a list: ["x","y"] vs a single element containing the separator
	a, b := base(), base()
	x, y := sym.StringNAlpha("x", slen(), "ab,"), sym.StringNAlpha("y", slen(), "ab,")
	z := sym.StringNAlpha("z", 2*slen()+1, "ab,")
	a.inputs = []string{x, y}
	b.inputs = []string{z}
	sym.Reach("C09.ne.list-element-boundary")
	sym.Assert(a.defKey() != b.defKey(), "C09.ne.list-element-boundary")
}
func VerifC09_adj_fp_entries() {
	a, b := base(), base()
	a.fpK, a.fpV = []string{sym.StringNAlpha("k1", 2, "ab=,"), "z"}, []string{sym.StringNAlpha("v1", 2, "ab=,"), "w"}
	b.fpK, b.fpV = []string{sym.StringNAlpha("k2", 3, "ab=,")}, []string{sym.StringNAlpha("v2", 3, "ab=,z")}
	sym.Assume(sym.Not(sym.StrEq(a.fpK[0], "z")))
	sym.Reach("C09.ne.fingerprint-entry-boundary")
	sym.Assert(a.defKey() != b.defKey(), "C09.ne.fingerprint-entry-boundary")
}

// ---- input file contents (HashFiles / GetTargetChangeHash) over the model file system

func writeInput(root, pkg, name, content string, exists bool) {
	if !exists {
		return
	}
	dir := filepath.Join(root, pkg)
	if err := os.MkdirAll(dir, 0755); err != nil {
		panic(err)
	}
	if err := os.WriteFile(filepath.Join(dir, name), []byte(content), 0644); err != nil {
		panic(err)
	}
}

func changeKey(root string, t model.Target, deps []string) string {
	config.Global.WorkspaceRoot = root
	config.Global.OS, config.Global.Arch = "l", "x"
	k, err := GetTargetChangeHash(t, deps)
	sym.Assert(err == nil, "C09.files.no-error")
	return k
}

func fileTarget() model.Target {
	return model.Target{Label: label.TL("p", "t"), Command: "c", Inputs: []string{"f1", "f2"}}
}

func VerifC09_files_content() {
	// same names, one file's content differs => keys differ
	r1, r2 := sym.TempDir("w1"), sym.TempDir("w2")
	c1, c2 := sym.StringNAlpha("c1", slen(), "ab"), sym.StringNAlpha("c2", slen(), "ab")
	other := sym.StringNAlpha("other", slen(), "ab")
	sym.Assume(sym.Not(sym.StrEq(c1, c2)))
	writeInput(r1, "p", "f1", c1, true)
	writeInput(r1, "p", "f2", other, true)
	writeInput(r2, "p", "f1", c2, true)
	writeInput(r2, "p", "f2", other, true)
	sym.Reach("C09.files.content")
	sym.Assert(changeKey(r1, fileTarget(), nil) != changeKey(r2, fileTarget(), nil), "C09.ne.single-file-content")
}

func VerifC09_files_root() {
	// identical package-relative files under two workspace locations => equal keys
	r1, r2 := sym.TempDir("w1"), sym.TempDir("elsewhere")
	c1, c2 := sym.StringNAlpha("c1", slen(), "ab"), sym.StringNAlpha("c2", slen(), "ab")
	for _, r := range []string{r1, r2} {
		writeInput(r, "p", "f1", c1, true)
		writeInput(r, "p", "f2", c2, true)
	}
	sym.Reach("C09.files.root")
	sym.Assert(changeKey(r1, fileTarget(), []string{"0a"}) == changeKey(r2, fileTarget(), []string{"0a"}), "C09.eq.workspace-location")
}

func VerifC09_files_order() {
	r1 := sym.TempDir("w1")
	c1, c2 := sym.StringNAlpha("c1", slen(), "ab"), sym.StringNAlpha("c2", slen(), "ab")
	writeInput(r1, "p", "f1", c1, true)
	writeInput(r1, "p", "f2", c2, true)
	t1, t2 := fileTarget(), fileTarget()
	t2.Inputs = []string{"f2", "f1"}
	sym.Reach("C09.files.order")
	sym.Assert(changeKey(r1, t1, nil) == changeKey(r1, t2, nil), "C09.eq.input-declaration-order")
}

func VerifC09_files_swap() {
	// the (path, content) association matters: swapping the contents of two files changes the key
	r1, r2 := sym.TempDir("w1"), sym.TempDir("w2")
	c1, c2 := sym.StringNAlpha("c1", slen(), "ab"), sym.StringNAlpha("c2", slen(), "ab")
	sym.Assume(sym.Not(sym.StrEq(c1, c2)))
	writeInput(r1, "p", "f1", c1, true)
	writeInput(r1, "p", "f2", c2, true)
	writeInput(r2, "p", "f1", c2, true)
	writeInput(r2, "p", "f2", c1, true)
	sym.Reach("C09.files.swap")
	sym.Assert(changeKey(r1, fileTarget(), nil) != changeKey(r2, fileTarget(), nil), "C09.ne.file-content-association")
}

// boundary and existence (defects found by these obligations were repaired: see known_findings.txt)

func VerifC09_files_boundary() {
	// bytes moving from the end of one input file to the start of the next
	r1, r2 := sym.TempDir("w1"), sym.TempDir("w2")
	a1, a2 := sym.StringNAlpha("a1", slen(), "ab"), sym.StringNAlpha("a2", slen(), "ab")
	b1, b2 := sym.StringNAlpha("b1", slen(), "ab"), sym.StringNAlpha("b2", slen(), "ab")
	sym.Assume(sym.Or(sym.Not(sym.StrEq(a1, b1)), sym.Not(sym.StrEq(a2, b2))))
	writeInput(r1, "p", "f1", a1, true)
	writeInput(r1, "p", "f2", a2, true)
	writeInput(r2, "p", "f1", b1, true)
	writeInput(r2, "p", "f2", b2, true)
	sym.Assert(changeKey(r1, fileTarget(), nil) != changeKey(r2, fileTarget(), nil), "C09.ne.file-content-boundary")
}

func VerifC09_files_missing() {
	// a missing input file and an empty input file
	r1, r2 := sym.TempDir("w1"), sym.TempDir("w2")
	writeInput(r1, "p", "f1", "x", true)
	writeInput(r1, "p", "f2", "", true)
	writeInput(r2, "p", "f1", "x", true)
	sym.Assert(changeKey(r1, fileTarget(), nil) != changeKey(r2, fileTarget(), nil), "C09.ne.file-existence")
}
