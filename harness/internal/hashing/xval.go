//go:build verif

package hashing

import (
	"fmt"

	"grog/internal/config"
	"grog/internal/zzverif/sym"
)

// relations between keys (equal / different) must agree between the uninterpreted-hash model and
// the real xxh3 hasher
func VerifXval_hashing() {
	config.Global.OS, config.Global.Arch = "linux", "amd64"
	mut := []func(s *tstate){
		func(s *tstate) {},
		func(s *tstate) { s.cmd = "c2" },
		func(s *tstate) { s.inputs = []string{"i", "j"} },
		func(s *tstate) { s.inputs = []string{"j", "i"} },
		func(s *tstate) { s.inputs = []string{"i,j"} },
		func(s *tstate) { s.cmd, s.inputs = "ci", []string{""} },
		func(s *tstate) { s.fpK, s.fpV = []string{"k", "a"}, []string{"v", "b"} },
		func(s *tstate) { s.fpK, s.fpV = []string{"a", "k"}, []string{"b", "v"} },
		func(s *tstate) { s.fpK, s.fpV = []string{"k=v"}, []string{""} },
		func(s *tstate) { s.multi = true },
		func(s *tstate) { s.multi, s.os = true, "darwin" },
		func(s *tstate) { s.os = "darwin" },
		func(s *tstate) { s.deps = []string{"0a", "0b"} },
		func(s *tstate) { s.deps = []string{"0b", "0a"} },
		func(s *tstate) { s.outTypes = []int{1} },
		func(s *tstate) { s.bin = "b" },
	}
	keys := make([]string, len(mut))
	for i, m := range mut {
		s := base()
		m(s)
		keys[i] = s.defKey()
	}
	for i := range keys {
		line := fmt.Sprintf("state %d equal-to:", i)
		for j := range keys {
			if keys[i] == keys[j] {
				line += fmt.Sprintf(" %d", j)
			}
		}
		sym.Transcript(line)
	}
	r := sym.TempDir("xval")
	writeInput(r, "p", "f1", "hello", true)
	writeInput(r, "p", "f2", "", true)
	k1 := changeKey(r, fileTarget(), nil)
	writeInput(r, "p", "f2", "x", true)
	k2 := changeKey(r, fileTarget(), nil)
	writeInput(r, "p", "f2", "", true)
	k3 := changeKey(r, fileTarget(), nil)
	sym.Transcript(fmt.Sprintf("files k1==k2 %v k1==k3 %v", k1 == k2, k1 == k3))
}
