//go:build verif

package hashing

import (
	"grog/internal/config"
	"grog/internal/dag"
	"grog/internal/label"
	"grog/internal/model"
	"grog/internal/zzverif/sym"
)

// The key as the executor obtains it: TargetHasher.SetTargetChangeHash over a graph whose
// dependencies carry output digests. Two states of the same graph that differ only in the
// dependencies' output digests get the same key iff the digests agree as a multiset per
// dependency position-independent list (the key may not depend on their order, and may not
// forget multiplicities: three dependencies producing X,X,Y are a different state from X,Y,Y).

func hasherKey(digests []string, viaAlias int) string {
	config.Global.OS, config.Global.Arch = "l", "x"
	t := &model.Target{Label: label.TL("p", "t"), Command: "c"}
	nodes := []model.BuildNode{t}
	var deps []*model.Target
	for i, d := range digests {
		// dependencies live in different packages and declare the same package-relative output
		dt := &model.Target{Label: label.TL([]string{"q1", "q2", "q3"}[i], "d"), Command: "c", OutputHash: d}
		deps = append(deps, dt)
		nodes = append(nodes, dt)
		if i == viaAlias {
			a := &model.Alias{Label: label.TL("p", "al"), Actual: dt.Label}
			nodes = append(nodes, a)
			t.Dependencies = append(t.Dependencies, a.Label)
		} else {
			t.Dependencies = append(t.Dependencies, dt.Label)
		}
	}
	g := dag.NewDirectedGraphFromTargets(nodes...)
	for _, n := range nodes {
		for _, dep := range n.GetDependencies() {
			if err := g.AddEdge(g.GetNodes()[dep], n); err != nil {
				panic(err)
			}
		}
	}
	h := NewTargetHasher(g)
	err := h.SetTargetChangeHash(t)
	sym.Assert(err == nil, "C09.hasher.no-error")
	return t.ChangeHash
}

func sameMultiset3(a, b []string) bool {
	eq := func(i, j int) bool { return sym.StrEq(a[i], b[j]) }
	perm := func(x, y, z int) bool { return sym.And(eq(0, x), sym.And(eq(1, y), eq(2, z))) }
	return sym.Or(perm(0, 1, 2), sym.Or(perm(0, 2, 1), sym.Or(perm(1, 0, 2), sym.Or(perm(1, 2, 0), sym.Or(perm(2, 0, 1), perm(2, 1, 0))))))
}

func VerifC09_hasher_dependency_digests() {
	// digests have one fixed length (they are hex renderings of a fixed-width hash)
	n := 1
	if sym.Tier() == "thorough" {
		n = 2
	}
	var a, b []string
	for i := 0; i < 3; i++ {
		x := sym.StringNAlpha([]string{"a1", "a2", "a3"}[i], n, hexAlpha)
		y := sym.StringNAlpha([]string{"b1", "b2", "b3"}[i], n, hexAlpha)
		sym.Assume(len(x) == n)
		sym.Assume(len(y) == n)
		a, b = append(a, x), append(b, y)
	}
	viaAlias := sym.Choice("dependency_behind_alias", 4) - 1 // -1: none
	ka, kb := hasherKey(a, viaAlias), hasherKey(b, viaAlias)
	same := sameMultiset3(a, b)
	sym.Reach("C09.hasher.dependency-digests")
	sym.Assert(sym.Iff(same, ka == kb), "C09.hasher.key-equal-iff-dependency-digest-multisets-equal")
}
