//go:build verif

package loading

import (
	"bufio"
	"fmt"
	"strings"

	"grog/internal/config"
	"grog/internal/zzverif/sym"
)

func VerifXval_loading() {
	// parsers without annotation content (YAML parsing is environment and is not cross-validated)
	files := []string{
		"# @grog\nbuild:\n\tgo build\n\n# @grog\n\ntest: build\n\tgo test\n",
		"all:\n\techo\n# @grog\n",
		"# @grog\n#\nbuild:\n",
		"# @grog\nnot a target\n",
		"",
		"  # @grog  \n\n\n  deploy: all\n",
	}
	for i, f := range files {
		p := newMakefileParser(bufio.NewScanner(strings.NewReader(f)))
		pkg, found, err := p.parse()
		line := fmt.Sprintf("makefile %d found=%v err=%v targets=", i, found, err != nil)
		for _, t := range pkg.Targets {
			line += t.Name + "[" + t.Command + "] "
		}
		sym.Transcript(line)
		sp := newScriptParser(bufio.NewScanner(strings.NewReader(f)), "/w/p/run.grog.sh")
		spkg, sfound, serr := sp.parse()
		line = fmt.Sprintf("script %d found=%v err=%v", i, sfound, serr != nil)
		for _, t := range spkg.Targets {
			line += fmt.Sprintf(" %s bin=%s inputs=%v tags=%v", t.Name, t.BinOutput, t.Inputs, t.Tags)
		}
		sym.Transcript(line)
	}
	config.Global.WorkspaceRoot = "/w"
	dto := PackageDTO{SourceFilePath: "/w/p/BUILD.json", Targets: []*TargetDTO{{Name: "a", Command: "c", Dependencies: []string{":b", "//q:r", "//q"}, Outputs: []string{"x", "dir::d", "docker::img"}, BinOutput: "bin/a", Timeout: "90s"}, {Name: "b"}},
		Aliases: []*AliasDTO{{Name: "al", Actual: ":a"}}}
	pkg, err := getEnrichedPackage(nil, "p", dto)
	sym.Transcript(fmt.Sprintf("enrich err=%v", err != nil))
	if err == nil {
		for _, t := range pkg.Targets {
			if t.Label.Name == "a" {
				sym.Transcript(fmt.Sprintf("  a deps=%v outs=%v bin=%v timeout=%v", t.Dependencies, t.Outputs, t.BinOutput, t.Timeout))
			}
		}
		sym.Transcript(fmt.Sprintf("  aliases=%d", len(pkg.Aliases)))
	}
	for _, bad := range []PackageDTO{{Targets: []*TargetDTO{{Name: "a"}, {Name: "a"}}}, {Targets: []*TargetDTO{{Name: "a", Outputs: []string{"weird::x"}}}},
		{Targets: []*TargetDTO{{Name: "a", BinOutput: "dir::x"}}}, {Targets: []*TargetDTO{{Name: "a", Dependencies: []string{"nolabel"}}}}, {Targets: []*TargetDTO{{Name: "a", Timeout: "soon"}}}} {
		_, err := getEnrichedPackage(nil, "p", bad)
		sym.Transcript(fmt.Sprintf("bad dto rejected=%v", err != nil))
	}
}
