//go:build verif

package loading

import (
	"os"
	"sort"
	"strings"

	"grog/internal/console"
	"grog/internal/zzverif/sym"
)

// C01 (globs): the inputs of a target are exactly the files its patterns match, minus the excluded ones,
// for every glob syntax the documentation lists (*, ?, [..], {..}, **). The tree is fixed, the pattern
// and the exclusion come from a menu with hand-written expectations; a file added to the tree
// afterwards shows up in the next resolution (what makes "files added under declared globs" invalidate).
func VerifC01_G_glob_resolution() {
	root := sym.TempDir("g")
	must := func(err error) {
		if err != nil {
			panic(err)
		}
	}
	must(os.MkdirAll(root+"/sub", 0755))
	for _, f := range []string{"a.go", "b.go", "c.txt", "sub/d.go"} {
		must(os.WriteFile(root+"/"+f, []byte("x"), 0644))
	}
	type pat struct {
		text string
		want []string // on the initial tree
		new  bool     // does it match the file "e.go" added later
	}
	menu := []pat{
		{"*.go", []string{"a.go", "b.go"}, true},
		{"{a,b}.go", []string{"a.go", "b.go"}, false},
		{"?.go", []string{"a.go", "b.go"}, true},
		{"[ab].go", []string{"a.go", "b.go"}, false},
		{"**/*.go", []string{"a.go", "b.go", "sub/d.go"}, true},
		{"sub/*.go", []string{"sub/d.go"}, false},
		{"a.go", []string{"a.go"}, false},
		{"{a,c}.*", []string{"a.go", "c.txt"}, false},
	}
	p := menu[sym.Choice("pattern", len(menu))]
	excl := [][]string{nil, {"b.go"}, {"sub/**"}, {"[a].go"}}[sym.Choice("exclude", 4)]
	exclSet := map[string]bool{}
	if len(excl) > 0 {
		switch excl[0] {
		case "b.go":
			exclSet["b.go"] = true
		case "sub/**":
			exclSet["sub/d.go"] = true
		case "[a].go":
			exclSet["a.go"] = true
		}
	}
	check := func(extra []string, id string) {
		got, err := resolveInputs(console.GetLogger(nil), root, []string{p.text}, excl)
		sym.Assert(err == nil, id+".resolves")
		var want []string
		for _, w := range append(append([]string{}, p.want...), extra...) {
			if !exclSet[w] {
				want = append(want, w)
			}
		}
		sort.Strings(got)
		sort.Strings(want)
		sym.Assert(strings.Join(got, ",") == strings.Join(want, ","), id+".inputs-are-exactly-the-matching-files")
	}
	check(nil, "C01.glob")
	must(os.WriteFile(root+"/e.go", []byte("x"), 0644))
	var extra []string
	if p.new {
		extra = []string{"e.go"}
	}
	check(extra, "C01.glob.after-adding-a-file")
	sym.Reach("C01.glob.resolved")
}
