//go:build verif

package loading

import (
	"bufio"
	"errors"
	"fmt"
	"sort"
	"strings"

	"grog/internal/config"
	"grog/internal/label"
	"grog/internal/model"
	"grog/internal/zzverif/sym"
)

func tier(q, t int) int {
	if sym.Tier() == "thorough" {
		return t
	}
	return q
}

// yamlModel: third-party YAML parsing is environment. It either fails or yields an annotation
// with arbitrary (symbolic) fields.
var (
	yamlCalls int
	yamlDocs  []string // the documents the loaders handed to the YAML parser, in order
)

func verifYAMLUnmarshal(data []byte, out any) error {
	yamlCalls++
	yamlDocs = append(yamlDocs, string(data))
	if sym.Choice(fmt.Sprintf("yaml_fails_%d", yamlCalls), 2) == 1 {
		return errors.New("yaml: unmarshal errors")
	}
	name := sym.StringAlpha(fmt.Sprintf("yaml_name_%d", yamlCalls), 2, "ab")
	switch a := out.(type) {
	case *grogAnnotation:
		a.Name = name
		a.Dependencies = []string{":dep"}
		a.Outputs = []string{"out.txt"}
	case *scriptAnnotation:
		a.Name = name
		a.Inputs = []string{"in.txt"}
	}
	return nil
}

// line classes the hand-written parsers distinguish
var lineMenu = []string{"", "   ", "# @grog", "  # @grog trailing", "#", "# name: x", "#name: x", "build:", "build: dep", "build", "\tcmd", "# @grogx"}

func symLines(n int) []string {
	lines := make([]string, n)
	free := sym.Choice("free_line_at", n+1) // position of the free-form line (n = none)
	for i := range lines {
		if i == free {
			lines[i] = sym.StringNAlpha("free", tier(6, 7), "#@grog :a\t")
		} else {
			lines[i] = lineMenu[sym.Choice(fmt.Sprintf("line_%d", i), len(lineMenu))]
		}
	}
	return lines
}

// refMakefile: reference reading of the annotation convention, written from the loader's documentation:
// a "# @grog" marker line, then (ignoring blank lines) comment lines forming the annotation, then the rule
// line "name: ..."; the target's command is "make name". Returns the commands in order, or rejected.
func refMakefile(lines []string, yamlOK func(k int) bool) (cmds []string, rejected bool) {
	i := 0
	block := 0
	for i < len(lines) {
		t := strings.TrimSpace(lines[i])
		i++
		if !strings.HasPrefix(t, "# @grog") {
			continue
		}
		content := false
		nAnno := 0
		for i < len(lines) {
			n := strings.TrimSpace(lines[i])
			i++
			if n == "" {
				continue
			}
			if strings.HasPrefix(n, "#") {
				nAnno++
				if nAnno > 1 || len(n) > 1 {
					content = true // joined annotation text is non-empty
				}
				continue
			}
			// the rule line
			if content {
				block++
				if !yamlOK(block) {
					return cmds, true
				}
			}
			if !strings.Contains(n, ":") {
				return cmds, true
			}
			cmds = append(cmds, "make "+strings.Split(n, ":")[0])
			break
		}
	}
	return cmds, false
}

// refDocs: the YAML documents of the annotation blocks, read from the convention: after a "# @grog"
// marker every following comment line (blank lines ignored) contributes its text after the '#' -
// indentation inside the comment is YAML structure and is kept - until the first other line ends the
// block; a block without text is not parsed at all. needRule: the Makefile convention parses a
// block only when a rule line follows it; the script convention when any other line follows.
func refDocs(lines []string) []string {
	var docs []string
	i := 0
	for i < len(lines) {
		t := strings.TrimSpace(lines[i])
		i++
		if !strings.HasPrefix(t, "# @grog") {
			continue
		}
		var parts []string
		for i < len(lines) {
			n := strings.TrimSpace(lines[i])
			i++
			if n == "" {
				continue
			}
			if strings.HasPrefix(n, "#") {
				parts = append(parts, n[1:])
				continue
			}
			if doc := strings.Join(parts, "\n"); doc != "" {
				docs = append(docs, doc)
			}
			break
		}
	}
	return docs
}

// the documents actually parsed are a prefix of the reference documents (parsing stops at the first error)
func checkDocs(lines []string, id string) {
	want := refDocs(lines)
	sym.Assert(len(yamlDocs) <= len(want), id+".count")
	for k := range yamlDocs {
		if k < len(want) {
			sym.Assert(sym.StrEq(yamlDocs[k], want[k]), id+".text")
		}
	}
}

// P1: any sequence of lines yields a package or an error from the Makefile parser - never a panic
func VerifC16_P_makefile() {
	yamlCalls = 0
	n := 1 + sym.Choice("n_lines", 3)
	lines := symLines(n)
	p := newMakefileParser(bufio.NewScanner(sym.LinesReader(lines)))
	yamlDocs = nil
	pkg, found, err := p.parse()
	checkDocs(lines, "C16.P1.makefile-yaml-document-is-the-comment-text")
	// differential: the same lines through the reference reading (the YAML model's verdict per block is
	// read back from the choices the model made)
	want, rejected := refMakefile(lines, func(k int) bool { return sym.Choice(fmt.Sprintf("yaml_fails_%d", k), 2) == 0 })
	sym.Assert((err != nil) == rejected, "C16.P1.makefile-rejects-exactly-malformed-blocks")
	if err == nil && !rejected {
		same := len(want) == len(pkg.Targets)
		for i := range pkg.Targets {
			if same && !sym.StrEq(pkg.Targets[i].Command, want[i]) {
				same = false
			}
		}
		sym.Assert(same, "C16.P1.makefile-targets-are-exactly-the-annotated-rules")
	}
	if err != nil {
		sym.Reach("C16.P.makefile.error")
		return
	}
	for _, t := range pkg.Targets {
		sym.Assert(t != nil, "C16.P1.makefile-targets-non-nil")
		sym.Assert(found, "C16.P1.makefile-targets-imply-found")
		sym.Assert(t.Command == "make "+t.Command[5:], "C16.P1.makefile-command-is-make-target")
	}
	sym.Reach("C16.P.makefile.ok")
}

// P2: same for the script (*.grog.sh / *.grog.py) parser
func VerifC16_P_script() {
	yamlCalls = 0
	n := 1 + sym.Choice("n_lines", 3)
	lines := symLines(n)
	p := newScriptParser(bufio.NewScanner(sym.LinesReader(lines)), "/w/p/tool.grog.sh")
	yamlDocs = nil
	pkg, _, err := p.parse()
	if len(yamlDocs) > 0 {
		// the script convention has a single block: the first one with text
		want := refDocs(lines)
		sym.Assert(len(want) > 0 && sym.StrEq(yamlDocs[0], want[0]), "C16.P2.script-yaml-document-is-the-comment-text")
	}
	if err != nil {
		sym.Reach("C16.P.script.error")
		return
	}
	sym.Assert(len(pkg.Targets) == 1, "C16.P2.script-yields-one-target")
	if len(pkg.Targets) == 1 {
		t := pkg.Targets[0]
		sym.Assert(t.BinOutput == "tool.grog.sh", "C16.P2.script-is-its-own-bin-output")
		hasSelf, hasNoCache := false, false
		for _, in := range t.Inputs {
			if in == "tool.grog.sh" {
				hasSelf = true
			}
		}
		for _, tag := range t.Tags {
			if tag == model.TagNoCache {
				hasNoCache = true
			}
		}
		sym.Assert(hasSelf && hasNoCache, "C16.P2.script-target-invariants")
		sym.Assert(t.Name != "", "C16.P2.script-target-has-a-name")
	}
	sym.Reach("C16.P.script.ok")
}

// D1: the package DTO -> model step rejects duplicate labels (targets and aliases) and nothing else
func VerifC16_D_enrich_duplicates() {
	config.Global.WorkspaceRoot = "/w"
	names := []string{"x", "y"}
	dto := PackageDTO{SourceFilePath: "/w/p/BUILD.json"}
	n1, n2, n3 := names[sym.Choice("t1", 2)], names[sym.Choice("t2", 2)], names[sym.Choice("a1", 2)]
	dto.Targets = []*TargetDTO{{Name: n1, Command: "c"}}
	twoTargets := sym.Choice("two_targets", 2) == 1
	if twoTargets {
		dto.Targets = append(dto.Targets, &TargetDTO{Name: n2, Command: "c"})
	}
	withAlias := sym.Choice("with_alias", 2) == 1
	if withAlias {
		dto.Aliases = []*AliasDTO{{Name: n3, Actual: ":" + n1}}
	}
	pkgPath := []string{"p", "."}[sym.Choice("root_package", 2)]
	pkg, err := getEnrichedPackage(nil, pkgPath, dto)
	dup := (twoTargets && n1 == n2) || (withAlias && (n3 == n1 || (twoTargets && n3 == n2)))
	sym.Assert((err != nil) == dup, "C16.D1.enrich-rejects-exactly-duplicate-labels")
	if err == nil {
		want := 1
		if twoTargets {
			want = 2
		}
		sym.Assert(len(pkg.Targets) == want, "C16.D1.all-targets-kept")
		for l := range pkg.Targets {
			sym.Assert((l.Package == "") == (pkgPath == "."), "C16.D1.root-package-is-empty-string")
		}
	}
	sym.Reach("C16.D.enrich")
}

// D2: merging the packages of one directory does not depend on the order in which files were loaded
func VerifC16_D_merge_order() {
	mkPkg := func(slot string) *model.Package {
		p := &model.Package{Path: "p", Targets: map[label.TargetLabel]*model.Target{}, Aliases: map[label.TargetLabel]*model.Alias{}}
		name := []string{"x", "y", "v"}[sym.Choice("name_"+slot, 3)]
		l := label.TL("p", name)
		if sym.Choice("alias_"+slot, 2) == 1 {
			p.Aliases[l] = &model.Alias{Label: l, Actual: label.TL("p", "z"), SourceFilePath: slot}
		} else {
			p.Targets[l] = &model.Target{Label: l, SourceFilePath: slot}
		}
		return p
	}
	load := func(order []string) (map[string]bool, bool) {
		pk := map[string]*model.Package{}
		for _, s := range []string{"f1", "f2", "f3"} {
			pk[s] = mkPkg(s)
		}
		into := pk[order[0]]
		for _, s := range order[1:] {
			if err := mergePackages(pk[s], into); err != nil {
				return nil, false
			}
		}
		nodes, err := model.BuildNodeMapFromPackages([]*model.Package{into})
		if err != nil {
			return nil, false
		}
		set := map[string]bool{}
		for l, n := range nodes {
			set[l.String()+"/"+string(n.GetType())] = true
		}
		return set, true
	}
	orders := [][]string{{"f1", "f2", "f3"}, {"f3", "f2", "f1"}, {"f2", "f3", "f1"}, {"f2", "f1", "f3"}}
	base, okBase := load(orders[0])
	// reference: the files of one directory may not define the same label twice, whatever the kinds
	n1, n2, n3 := sym.Choice("name_f1", 3), sym.Choice("name_f2", 3), sym.Choice("name_f3", 3)
	distinct := n1 != n2 && n1 != n3 && n2 != n3
	sym.Assert(okBase == distinct, "C16.D2.duplicate-labels-across-files-rejected-exactly")
	for _, o := range orders[1:] {
		got, ok := load(o)
		sym.Assert(ok == okBase, "C16.D2.accept-reject-independent-of-load-order")
		if ok && okBase {
			keys := func(m map[string]bool) []string {
				var ks []string
				for k := range m {
					ks = append(ks, k)
				}
				sort.Strings(ks)
				return ks
			}
			a, b := keys(base), keys(got)
			same := len(a) == len(b)
			for i := range a {
				if same && a[i] != b[i] {
					same = false
				}
			}
			sym.Assert(same, "C16.D2.loaded-nodes-independent-of-load-order")
		}
	}
	sym.Reach("C16.D.merge")
}

// P3: two annotated rules in one Makefile (beyond the line bound of P1): both become targets, in order,
// each named by its annotation's `name:` or else by its rule - also when the two names coincide (rejecting
// duplicates is the job of the DTO -> model step, D1, which sees both).
func VerifC16_P_makefile_two_rules() {
	yamlCalls = 0
	yamlDocs = nil
	rules := []string{"build:", "test: build", "build: dep"}
	var lines []string
	var ruleNames []string
	annotated := make([]bool, 2)
	for k := 0; k < 2; k++ {
		lines = append(lines, "# @grog")
		if flag(fmt.Sprintf("block_%d_has_annotation_text", k)) {
			lines = append(lines, "# name: x")
			annotated[k] = true
		}
		r := rules[sym.Choice(fmt.Sprintf("rule_%d", k), len(rules))]
		lines = append(lines, r)
		ruleNames = append(ruleNames, strings.Split(r, ":")[0])
		if flag(fmt.Sprintf("recipe_after_%d", k)) {
			lines = append(lines, "\tcmd")
		}
	}
	p := newMakefileParser(bufio.NewScanner(sym.LinesReader(lines)))
	pkg, found, err := p.parse()
	want, rejected := refMakefile(lines, func(k int) bool { return sym.Choice(fmt.Sprintf("yaml_fails_%d", k), 2) == 0 })
	sym.Assert((err != nil) == rejected, "C16.P3.two-rules-rejected-exactly-on-yaml-errors")
	if err != nil {
		sym.Reach("C16.P.two-rules.error")
		return
	}
	sym.Assert(found && len(pkg.Targets) == 2 && len(want) == 2, "C16.P3.both-annotated-rules-become-targets")
	if len(pkg.Targets) != 2 {
		return
	}
	block := 0
	for k := 0; k < 2; k++ {
		t := pkg.Targets[k]
		sym.Assert(t.Command == "make "+ruleNames[k], "C16.P3.targets-keep-rule-order-and-commands")
		name := ruleNames[k]
		if annotated[k] {
			block++
			// the YAML model chose this block's name (empty = no override)
			if n := sym.StringAlpha(fmt.Sprintf("yaml_name_%d", block), 2, "ab"); n != "" {
				name = n
			}
		}
		sym.Assert(sym.StrEq(t.Name, name), "C16.P3.target-named-by-annotation-or-rule")
	}
	sym.Reach("C16.P.two-rules.ok")
}

func flag(name string) bool { return sym.Choice(name, 2) == 1 }
