//go:build verif

package output

import (
	"grog/internal/label"
	"grog/internal/model"
	"grog/internal/proto/gen"
	"grog/internal/zzverif/sym"
)

func flag(name string) bool { return sym.Choice(name, 2) == 1 }

func fileOut(path, digest string, exec bool) *gen.Output {
	return &gen.Output{Kind: &gen.Output_File{File: &gen.FileOutput{Path: path, Digest: &gen.Digest{Hash: digest}, IsExecutable: exec}}}
}

// The output hash (what dependants' keys are built from) is a function of the *set* of recorded
// outputs: the order in which the pooled output writers happened to finish does not matter, and
// any change of a path, a digest or an executable bit does.
func VerifC02_O_output_hash_is_a_function_of_the_output_set() {
	n := 3
	var a, b []*gen.Output
	same := true
	for i := 0; i < n; i++ {
		path := []string{"o1", "o2", "o3"}[i]
		d1 := []string{"0", "a"}[sym.Choice([]string{"digest_a1", "digest_a2", "digest_a3"}[i], 2)]
		d2 := d1
		x1 := flag([]string{"exec_a1", "exec_a2", "exec_a3"}[i])
		x2 := x1
		nChanges := 3
		if i == 2 {
			nChanges = 1 // the third output is the same in both states
		}
		switch sym.Choice([]string{"change_1", "change_2", "change_3"}[i], nChanges) {
		case 1:
			d2 = []string{"0", "a"}[sym.Choice([]string{"digest_b1", "digest_b2", "digest_b3"}[i], 2)]
			same = same && d1 == d2
		case 2:
			x2 = !x1
			same = false
		}
		a = append(a, fileOut(path, d1, x1))
		b = append(b, fileOut(path, d2, x2))
	}
	// the second state's outputs are recorded in another completion order
	perm := [][]int{{0, 1, 2}, {0, 2, 1}, {1, 0, 2}, {1, 2, 0}, {2, 0, 1}, {2, 1, 0}}[sym.Choice("completion_order", 6)]
	pb := []*gen.Output{b[perm[0]], b[perm[1]], b[perm[2]]}
	ha, erra := getOutputHash(a)
	hb, errb := getOutputHash(pb)
	sym.Assert(erra == nil && errb == nil, "C02.cutoff.output-hash-computed")
	sym.Assert(same == (ha == hb), "C02.cutoff.output-hash-is-a-function-of-the-output-set")
	sym.Reach("C02.cutoff.output-hash-set")
}

// A cached result is valid for a target iff it records exactly the target's declared outputs - as a
// set: the result lists them in the order the output writers finished, the target in declaration order.
func VerifC02_O_cached_result_matches_declared_outputs_as_a_set() {
	names := []string{"a.txt", "b.txt", "c.txt"}
	t := &model.Target{Label: label.TL("p", "t")}
	for _, n := range names {
		t.Outputs = append(t.Outputs, model.NewOutput("file", n))
	}
	perm := [][]int{{0, 1, 2}, {0, 2, 1}, {1, 0, 2}, {1, 2, 0}, {2, 0, 1}, {2, 1, 0}}[sym.Choice("completion_order", 6)]
	var recorded []*gen.Output
	for _, i := range perm {
		recorded = append(recorded, fileOut(names[i], "0", false))
	}
	same := true
	switch sym.Choice("difference", 4) {
	case 1: // one recorded output is another file
		recorded[0] = fileOut("other.txt", "0", false)
		same = false
	case 2: // one is missing
		recorded = recorded[:2]
		same = false
	case 3: // one is recorded twice instead of another
		recorded[1] = recorded[0]
		same = false
	}
	err := validateTargetResultOutputs(t, &gen.TargetResult{ChangeHash: "k", Outputs: recorded})
	sym.Assert((err == nil) == same, "C02.noop.cached-result-valid-iff-it-records-the-declared-outputs-as-a-set")
	sym.Reach("C02.noop.validate-set")
}
