//go:build verif

package output

import (
	"grog/internal/proto/gen"
	"grog/internal/zzverif/sym"
)

func flag(name string) bool { return sym.Choice(name, 2) == 1 }

func fileOut(path, digest string, exec bool) *gen.Output {
	return &gen.Output{Kind: &gen.Output_File{File: &gen.FileOutput{Path: path, Digest: &gen.Digest{Hash: digest}, IsExecutable: exec}}}
}

// The output hash (what dependants' keys are built from) is a function of the *set* of recorded
// outputs: the order in which the pooled output writers happened to finish does not matter, and
// any change of a path, a digest or an executable bit does.
func VerifC02_O_output_hash_is_a_function_of_the_output_set() {
	n := 3
	var a, b []*gen.Output
	same := true
	for i := 0; i < n; i++ {
		path := []string{"o1", "o2", "o3"}[i]
		d1 := []string{"0", "a"}[sym.Choice([]string{"digest_a1", "digest_a2", "digest_a3"}[i], 2)]
		d2 := d1
		x1 := flag([]string{"exec_a1", "exec_a2", "exec_a3"}[i])
		x2 := x1
		nChanges := 3
		if i == 2 {
			nChanges = 1 // the third output is the same in both states
		}
		switch sym.Choice([]string{"change_1", "change_2", "change_3"}[i], nChanges) {
		case 1:
			d2 = []string{"0", "a"}[sym.Choice([]string{"digest_b1", "digest_b2", "digest_b3"}[i], 2)]
			same = same && d1 == d2
		case 2:
			x2 = !x1
			same = false
		}
		a = append(a, fileOut(path, d1, x1))
		b = append(b, fileOut(path, d2, x2))
	}
	// the second state's outputs are recorded in another completion order
	perm := [][]int{{0, 1, 2}, {0, 2, 1}, {1, 0, 2}, {1, 2, 0}, {2, 0, 1}, {2, 1, 0}}[sym.Choice("completion_order", 6)]
	pb := []*gen.Output{b[perm[0]], b[perm[1]], b[perm[2]]}
	ha, erra := getOutputHash(a)
	hb, errb := getOutputHash(pb)
	sym.Assert(erra == nil && errb == nil, "C02.cutoff.output-hash-computed")
	sym.Assert(same == (ha == hb), "C02.cutoff.output-hash-is-a-function-of-the-output-set")
	sym.Reach("C02.cutoff.output-hash-set")
}
