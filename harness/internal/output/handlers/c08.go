//go:build verif

package handlers

import (
	"context"
	"errors"
	"io"
	"os"
	"strings"
	"sync"

	"grog/internal/caching"
	"grog/internal/caching/backends"
	"grog/internal/config"
	"grog/internal/hashing"
	"grog/internal/label"
	"grog/internal/model"
	"grog/internal/zzverif/sym"
)

// remote object store model (what S3/GCS are to the RemoteWrapper)
type memStore struct {
	mu   sync.Mutex // object stores are safe for concurrent use
	data map[string]string
}

func (m *memStore) TypeName() string { return "mem" }
func (m *memStore) Get(ctx context.Context, path, key string) (io.ReadCloser, error) {
	m.mu.Lock()
	defer m.mu.Unlock()
	c, ok := m.data[path+"/"+key]
	if !ok {
		return nil, errors.New("no such object")
	}
	return io.NopCloser(strings.NewReader(c)), nil
}
func (m *memStore) Set(ctx context.Context, path, key string, content io.Reader) error {
	b, err := io.ReadAll(content)
	if err != nil {
		return err
	}
	m.mu.Lock()
	defer m.mu.Unlock()
	m.data[path+"/"+key] = string(b)
	return nil
}
func (m *memStore) Delete(ctx context.Context, path, key string) error {
	m.mu.Lock()
	defer m.mu.Unlock()
	delete(m.data, path+"/"+key)
	return nil
}
func (m *memStore) Exists(ctx context.Context, path, key string) (bool, error) {
	m.mu.Lock()
	defer m.mu.Unlock()
	_, ok := m.data[path+"/"+key]
	return ok, nil
}

// R1 for directory and file outputs: what machine A writes with the remote cache configured can be
// restored on machine B (empty local cache, same remote) - also when A's local cache already held
// some or all of the blobs from a build made before the remote was configured.
func VerifC08_R_outputs_written_on_A_restore_on_B() {
	ctx := context.Background()
	config.Global.Root = "/grogrootA"
	config.Global.WorkspaceRoot = sym.TempDir("w")
	config.Global.OS, config.Global.Arch = "linux", "amd64"
	fsA, err := backends.NewFileSystemCache(ctx)
	must(err)
	remote := &memStore{data: map[string]string{}}
	t := model.Target{Label: label.TL("p", "t"), ChangeHash: "h"}
	dirOut := model.NewOutput("dir", "dist")
	fileOut := model.NewOutput("file", "single.txt")
	root := t.GetAbsOutputPath(dirOut)
	es := []entry{{path: "a.txt", content: "A"}, {path: "sub/b.txt", content: "B"}, {path: "sub/ln", kind: 2, target: "b.txt"}}
	materialise(root, es)
	must(os.WriteFile(t.GetAbsOutputPath(fileOut), []byte("S"), 0644))
	// history of A's local cache
	switch sym.Choice("local_cache_of_A", 3) {
	case 1: // an earlier build without the remote wrote exactly these outputs
		c0 := caching.NewCas(fsA)
		_, e1 := NewDirectoryOutputHandler(c0).Write(ctx, t, dirOut, nil)
		_, e2 := NewFileOutputHandler(c0).Write(ctx, t, fileOut, nil)
		sym.Assert(e1 == nil && e2 == nil, "C08.setup.local-only-build")
	case 2: // ... wrote a directory that shares one file with the current one
		c0 := caching.NewCas(fsA)
		must(c0.WriteBytes(ctx, mustHashFile(root+"/a.txt"), []byte("A")))
	}
	casA := caching.NewCas(backends.NewRemoteWrapper(fsA, remote))
	genDir, werr := NewDirectoryOutputHandler(casA).Write(ctx, t, dirOut, nil)
	genFile, werr2 := NewFileOutputHandler(casA).Write(ctx, t, fileOut, nil)
	sym.Assert(werr == nil && werr2 == nil, "C08.R1.write-with-remote-succeeds")
	if werr != nil || werr2 != nil {
		return
	}
	// machine B: same remote, empty local cache, empty workspace
	must(os.RemoveAll(root))
	must(os.Remove(t.GetAbsOutputPath(fileOut)))
	config.Global.Root = "/grogrootB"
	fsB, err := backends.NewFileSystemCache(ctx)
	must(err)
	casB := caching.NewCas(backends.NewRemoteWrapper(fsB, remote))
	lerr := NewDirectoryOutputHandler(casB).Load(ctx, t, genDir, nil)
	sym.Assert(lerr == nil, "C08.R1.directory-output-restorable-from-the-remote-alone")
	if lerr == nil {
		auditTree(root, es, "C08.R1.B")
	}
	lerr2 := NewFileOutputHandler(casB).Load(ctx, t, genFile, nil)
	sym.Assert(lerr2 == nil, "C08.R1.file-output-restorable-from-the-remote-alone")
	config.Global.Root = "/grogroot"
	sym.Reach("C08.R.handlers")
}

func mustHashFile(p string) string {
	h, err := hashing.HashFile(p)
	must(err)
	return h
}
