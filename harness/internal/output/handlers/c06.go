//go:build verif

package handlers

import (
	"context"
	"fmt"
	"os"
	"path/filepath"
	"sort"

	"grog/internal/caching"
	"grog/internal/caching/backends"
	"grog/internal/config"
	"grog/internal/label"
	"grog/internal/model"
	"grog/internal/zzverif/sym"
)

func flag(name string) bool { return sym.Choice(name, 2) == 1 }

type entry struct {
	path    string // relative to the output directory
	kind    int    // 0 file 1 dir 2 symlink
	content string
	exec    bool
	target  string
}

func setupWorld() (context.Context, *caching.Cas) {
	config.Global.Root = "/grogroot"
	config.Global.WorkspaceRoot = sym.TempDir("w")
	config.Global.OS, config.Global.Arch = "linux", "amd64"
	ctx := context.Background()
	be, err := backends.NewFileSystemCache(ctx)
	if err != nil {
		panic(err)
	}
	return ctx, caching.NewCas(be)
}

func materialise(root string, es []entry) {
	must(os.MkdirAll(root, 0755))
	for _, e := range es {
		p := filepath.Join(root, e.path)
		switch e.kind {
		case 1:
			must(os.MkdirAll(p, 0755))
		case 0:
			must(os.MkdirAll(filepath.Dir(p), 0755))
			must(os.WriteFile(p, []byte(e.content), 0644))
			if e.exec {
				must(os.Chmod(p, 0755))
			}
		case 2:
			must(os.MkdirAll(filepath.Dir(p), 0755))
			must(os.Symlink(e.target, p))
		}
	}
}

func must(err error) {
	if err != nil {
		panic(err)
	}
}

// listTree returns the relative paths of everything below root, sorted
func listTree(root, rel string, out *[]string) {
	ents, err := os.ReadDir(filepath.Join(root, rel))
	if err != nil {
		return
	}
	for _, e := range ents {
		r := filepath.Join(rel, e.Name())
		*out = append(*out, r)
		info, err := os.Lstat(filepath.Join(root, r))
		if err == nil && info.IsDir() {
			listTree(root, r, out)
		}
	}
}

// auditTree asserts that root holds exactly the entries es
func auditTree(root string, es []entry, id string) {
	var got []string
	listTree(root, "", &got)
	sort.Strings(got)
	want := map[string]entry{}
	for _, e := range es {
		want[e.path] = e
		// parents are implied
		for d := filepath.Dir(e.path); d != "."; d = filepath.Dir(d) {
			if _, ok := want[d]; !ok {
				want[d] = entry{path: d, kind: 1}
			}
		}
	}
	sym.Assert(len(got) == len(want), id+".entry-set")
	for _, g := range got {
		e, ok := want[g]
		sym.Assert(ok, id+".nothing-extra")
		if !ok {
			continue
		}
		info, err := os.Lstat(filepath.Join(root, g))
		sym.Assert(err == nil, id+".entry-readable")
		if err != nil {
			continue
		}
		switch e.kind {
		case 1:
			sym.Assert(info.IsDir(), id+".directory-kind")
		case 2:
			sym.Assert(info.Mode()&os.ModeSymlink != 0, id+".symlink-kind")
			tgt, lerr := os.Readlink(filepath.Join(root, g))
			sym.Assert(lerr == nil && tgt == e.target, id+".symlink-target")
		case 0:
			sym.Assert(info.Mode().IsRegular(), id+".file-kind")
			b, rerr := os.ReadFile(filepath.Join(root, g))
			sym.Assert(rerr == nil, id+".file-readable")
			sym.Assert(sym.StrEq(string(b), e.content), id+".file-bytes")
			sym.Assert(sym.Iff(info.Mode()&0111 != 0, e.exec), id+".exec-bit")
		}
	}
}

// shapes: contents and exec bits are concrete choices (the tree machinery is exercised by
// enumeration); VerifC06_E1_symbolic_file keeps one content and exec bit fully symbolic.
const nShapes = 9

func shape(i int) []entry {
	c := func(n string) string { return []string{"", "x", "xy"}[sym.Choice(n, 3)] }
	x := func(n string) bool { return flag(n) }
	switch i {
	case 0:
		return []entry{{path: "a.txt", content: c("c1"), exec: x("x1")}}
	case 1:
		return []entry{{path: "a.txt", content: c("c1"), exec: x("x1")}, {path: "b.txt", content: c("c2"), exec: x("x2")}}
	case 2:
		same := c("dup")
		return []entry{{path: "a.txt", content: same}, {path: "sub/a.txt", content: same, exec: x("x1")}}
	case 3:
		return []entry{{path: "sub/deep/f", content: c("c1")}, {path: "empty", kind: 1}}
	case 4:
		return []entry{{path: "f", content: c("c1")}, {path: "ln", kind: 2, target: "f"}, {path: "sub/up", kind: 2, target: "../f"}}
	case 5:
		return []entry{{path: "empty", kind: 1}}
	case 6:
		return nil
	case 8: // links that leave the output directory (a shared file next to it, an absolute path) and a dangling one
		return []entry{{path: "f", content: c("c1")}, {path: "shared", kind: 2, target: "../shared.txt"}, {path: "sub/abs", kind: 2, target: "/etc/hosts"}, {path: "gone", kind: 2, target: "nowhere"}}
	}
	return []entry{{path: "sub/a", content: c("c1")}, {path: "sub2/a", content: c("c2")}, {path: "sub2/b", content: "", exec: x("x1")}}
}

// E1: directory outputs are restored exactly, from any prior state of the destination
func VerifC06_E1_directory_roundtrip() {
	dirRoundtrip(shape(sym.Choice("shape", nShapes)))
}

// E1 with symbolic bytes and permission: the solver decides content/digest/exec cases
func VerifC06_E1_symbolic_file() {
	dirRoundtrip([]entry{{path: "sub/a.bin", content: sym.StringAlpha("content", 2, "ab"), exec: sym.Bool("exec")},
		{path: "b.txt", content: "b"}})
}

func dirRoundtrip(es []entry) {
	ctx, cas := setupWorld()
	h := NewDirectoryOutputHandler(cas)
	t := model.Target{Label: label.TL("p", "t"), ChangeHash: "h"}
	out := model.NewOutput("dir", "dist")
	root := t.GetAbsOutputPath(out)
	materialise(root, es)
	genOut, err := h.Write(ctx, t, out, nil)
	if err != nil {
		sym.Note("write-error", err.Error())
	}
	sym.Assert(err == nil, "C06.E1.write-succeeds")
	if err != nil {
		return
	}
	prior := sym.Choice("prior_state", 7)
	switch prior {
	case 0: // untouched
	case 1: // absent
		must(os.RemoveAll(root))
	case 2: // absent parent directories
		must(os.RemoveAll(filepath.Join(config.Global.WorkspaceRoot, "p")))
	case 3: // modified / truncated content
		if len(es) > 0 && es[0].kind == 0 {
			must(os.WriteFile(filepath.Join(root, es[0].path), []byte("zz"), 0644))
		} else {
			must(os.WriteFile(filepath.Join(root, "new"), nil, 0644))
		}
	case 4: // stale extra files and directories
		must(os.MkdirAll(filepath.Join(root, "stale/dir"), 0755))
		must(os.WriteFile(filepath.Join(root, "stale/dir/x"), []byte("old"), 0644))
	case 5: // a file where the directory should be
		must(os.RemoveAll(root))
		must(os.WriteFile(root, []byte("i am a file"), 0644))
	case 6: // permission bits changed
		if len(es) > 0 && es[0].kind == 0 {
			must(os.Chmod(filepath.Join(root, es[0].path), 0755))
		}
	}
	lerr := h.Load(ctx, t, genOut, nil)
	if lerr != nil {
		sym.Note("load-error", lerr.Error())
	}
	sym.Assert(lerr == nil, "C06.E1.load-succeeds")
	if lerr != nil {
		return
	}
	auditTree(root, es, "C06.E1")
	sym.Reach("C06.E1")
}

// E2: file outputs: bytes and executable permission
func VerifC06_E2_file_roundtrip() {
	ctx, cas := setupWorld()
	h := NewFileOutputHandler(cas)
	t := model.Target{Label: label.TL("p", "t"), ChangeHash: "h"}
	out := model.NewOutput("file", "bin/tool")
	p := t.GetAbsOutputPath(out)
	es := []entry{{path: "tool", content: sym.StringAlpha("content", 2, "ab"), exec: sym.Bool("exec")}}
	materialise(filepath.Dir(p), es)
	genOut, err := h.Write(ctx, t, out, nil)
	sym.Assert(err == nil, "C06.E2.write-succeeds")
	if err != nil {
		return
	}
	prior := sym.Choice("prior_state", 7)
	switch prior {
	case 6: // other bytes AND the other permission (writing over an existing file keeps its mode, so recreate it)
		must(os.Remove(p))
		if flag("prior_file_executable") {
			must(os.WriteFile(p, []byte("zz"), 0755))
		} else {
			must(os.WriteFile(p, []byte("zz"), 0644))
		}
	case 1:
		must(os.Remove(p))
	case 2:
		must(os.RemoveAll(filepath.Join(config.Global.WorkspaceRoot, "p")))
	case 3:
		must(os.WriteFile(p, []byte("zz"), 0644))
	case 4:
		must(os.WriteFile(p, nil, 0755))
	case 5: // same bytes, permission bits flipped
		must(os.Remove(p))
		must(os.WriteFile(p, []byte(es[0].content), 0644))
		if !flag("flipped_to_exec") {
			// leave 0644
		} else {
			must(os.Chmod(p, 0755))
		}
	}
	lerr := h.Load(ctx, t, genOut, nil)
	sym.Assert(lerr == nil, "C06.E2.load-succeeds")
	if lerr != nil {
		return
	}
	auditTree(filepath.Dir(p), es, "C06.E2")
	sym.Reach("C06.E2")
	_ = fmt.Sprint
}

// C04.R-term: restoring a directory returns (nil or an error) for every subset of failing blob reads;
// it never hangs
func VerifC04_R_restore_faults() {
	ctx, cas := setupWorld()
	h := NewDirectoryOutputHandler(cas)
	t := model.Target{Label: label.TL("p", "t"), ChangeHash: "h"}
	out := model.NewOutput("dir", "dist")
	root := t.GetAbsOutputPath(out)
	// the build may be cancelled (Ctrl-C) at any moment of the restore (explored on the flat tree with one fault)
	withCancel := flag("cancelled_during_restore")
	treeChoice := 0
	if !withCancel || sym.Tier() == "thorough" {
		treeChoice = sym.Choice("tree", 3)
	}
	var es []entry
	switch treeChoice {
	case 0: // flat directory
		es = []entry{{path: "a", content: "1"}, {path: "b", content: "2"}, {path: "c", content: "3"}}
	case 1: // one sub-directory
		es = []entry{{path: "a", content: "1"}, {path: "sub/b", content: "2"}}
	case 2: // nested
		es = []entry{{path: "s1/a", content: "1"}, {path: "s1/s2/b", content: "2"}, {path: "c", content: "3"}}
	}
	materialise(root, es)
	genOut, err := h.Write(ctx, t, out, nil)
	sym.Assert(err == nil, "C04.R.setup-write")
	must(os.RemoveAll(root))
	nf := 1
	if !withCancel {
		nf = 1 + sym.Choice("faults_minus_1", 2)
	}
	cancelled := false
	if withCancel {
		cctx, cancel := context.WithCancel(ctx)
		ctx = cctx
		go func() {
			sym.ExternalEvent("cancel")
			cancelled = true
			cancel()
		}()
	}
	sym.Faults(nf, filepath.Join(config.Global.GetWorkspaceCacheDirectory(), "cas"), "open,read")
	lerr := h.Load(ctx, t, genOut, nil)
	sym.Quiesce() // downloads still running after Load returned must end quietly too (no panic, no deadlock)
	injected := sym.FaultsInjected()
	sym.Faults(0, "", "")
	sym.Reach("C04.R.load-returned")
	if cancelled {
		sym.Reach("C04.R.cancelled-during-restore")
		return
	}
	if injected == 0 {
		sym.Assert(lerr == nil, "C04.R.no-fault-no-error")
		auditTree(root, es, "C04.R")
	} else {
		sym.Assert(lerr != nil, "C04.R.read-fault-is-reported")
	}
}

// C04.R-term with many unreadable blobs: a wide directory (10 files) of which none, all but one, or all
// blobs have disappeared from the cache is restored or rejected - Load returns either way, also
// when the number of failing downloads exceeds any internal concurrency limit.
func VerifC04_R_restore_with_many_lost_blobs() {
	ctx, cas := setupWorld()
	h := NewDirectoryOutputHandler(cas)
	t := model.Target{Label: label.TL("p", "t"), ChangeHash: "h"}
	out := model.NewOutput("dir", "dist")
	root := t.GetAbsOutputPath(out)
	var es []entry
	for i := 0; i < 10; i++ {
		es = append(es, entry{path: fmt.Sprintf("f%d", i), content: fmt.Sprintf("content-%d", i)})
	}
	materialise(root, es)
	genOut, err := h.Write(ctx, t, out, nil)
	sym.Assert(err == nil, "C04.R.setup-write")
	must(os.RemoveAll(root))
	keep := []int{10, 1, 0}[sym.Choice("blobs_left", 3)]
	casDir := filepath.Join(config.Global.GetWorkspaceCacheDirectory(), "cas")
	lost := 0
	for i, e := range es {
		if i < keep {
			continue
		}
		// the blob of file i: find it by content
		ents, _ := os.ReadDir(casDir)
		for _, de := range ents {
			if b, rerr := os.ReadFile(filepath.Join(casDir, de.Name())); rerr == nil && string(b) == e.content {
				must(os.Remove(filepath.Join(casDir, de.Name())))
				lost++
			}
		}
	}
	lerr := h.Load(ctx, t, genOut, nil)
	sym.Quiesce()
	sym.Reach("C04.R.many.load-returned")
	if lost == 0 {
		sym.Assert(lerr == nil, "C04.R.no-fault-no-error")
		auditTree(root, es, "C04.R")
	} else {
		sym.Assert(lerr != nil, "C04.R.read-fault-is-reported")
	}
}
