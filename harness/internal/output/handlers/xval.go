//go:build verif

package handlers

import (
	"fmt"
	"os"
	"path/filepath"
	"sort"

	"grog/internal/label"
	"grog/internal/model"
	"grog/internal/zzverif/sym"
)

func describeTree(root string) []string {
	var paths []string
	listTree(root, "", &paths)
	sort.Strings(paths)
	var out []string
	for _, p := range paths {
		info, err := os.Lstat(filepath.Join(root, p))
		if err != nil {
			out = append(out, p+" ?")
			continue
		}
		switch {
		case info.Mode()&os.ModeSymlink != 0:
			t, _ := os.Readlink(filepath.Join(root, p))
			out = append(out, fmt.Sprintf("%s -> %s", p, t))
		case info.IsDir():
			out = append(out, p+"/")
		default:
			b, _ := os.ReadFile(filepath.Join(root, p))
			out = append(out, fmt.Sprintf("%s %q exec=%v", p, string(b), info.Mode()&0111 != 0))
		}
	}
	return out
}

// the model file system, protobuf and hash models against the real OS / wire format / xxh3
func VerifXval_handlers() {
	ctx, cas := setupWorld()
	h := NewDirectoryOutputHandler(cas)
	t := model.Target{Label: label.TL("p", "t"), ChangeHash: "h"}
	out := model.NewOutput("dir", "dist")
	root := t.GetAbsOutputPath(out)
	es := []entry{{path: "a.txt", content: "A"}, {path: "bin/tool", content: "T", exec: true}, {path: "bin/same", content: "A"},
		{path: "empty", kind: 1}, {path: "ln", kind: 2, target: "a.txt"}, {path: "deep/er/f", content: ""}}
	materialise(root, es)
	genOut, err := h.Write(ctx, t, out, nil)
	sym.Transcript(fmt.Sprintf("write err=%v", err != nil))
	d1, _ := h.Hash(ctx, t, out)
	must(os.WriteFile(filepath.Join(root, "a.txt"), []byte("changed"), 0644))
	must(os.MkdirAll(filepath.Join(root, "stale"), 0755))
	d2, _ := h.Hash(ctx, t, out)
	sym.Transcript(fmt.Sprintf("hash changed=%v", d1 != d2))
	lerr := h.Load(ctx, t, genOut, nil)
	sym.Transcript(fmt.Sprintf("load err=%v", lerr != nil))
	for _, l := range describeTree(root) {
		sym.Transcript("  " + l)
	}
	d3, _ := h.Hash(ctx, t, out)
	sym.Transcript(fmt.Sprintf("hash restored=%v", d1 == d3))
	fh := NewFileOutputHandler(cas)
	fo := model.NewOutput("file", "bin/x")
	p := t.GetAbsOutputPath(fo)
	must(os.MkdirAll(filepath.Dir(p), 0755))
	must(os.WriteFile(p, []byte("payload"), 0755))
	g2, err2 := fh.Write(ctx, t, fo, nil)
	must(os.RemoveAll(filepath.Dir(p)))
	err3 := fh.Load(ctx, t, g2, nil)
	sym.Transcript(fmt.Sprintf("file write err=%v load err=%v", err2 != nil, err3 != nil))
	for _, l := range describeTree(filepath.Dir(p)) {
		sym.Transcript("  " + l)
	}
	_, err4 := fh.Write(ctx, t, model.NewOutput("file", "missing"), nil)
	sym.Transcript(fmt.Sprintf("missing output err=%v", err4 != nil))
}
