//go:build verif

package analysis

import (
	"fmt"
	"strings"

	"grog/internal/config"
	"grog/internal/label"
	"grog/internal/model"
	"grog/internal/zzverif/sym"
)

func tier(q, t int) int {
	if sym.Tier() == "thorough" {
		return t
	}
	return q
}

// ---- reference path semantics (component stack), independent of path/filepath ------------

// normalize resolves "." and ".." lexically; returns the remaining components and how many
// levels the path climbs above its starting directory.
func normalize(p string) (comps []string, up int) {
	for _, c := range strings.Split(p, "/") {
		switch c {
		case "", ".":
		case "..":
			if len(comps) > 0 {
				comps = comps[:len(comps)-1]
			} else {
				up++
			}
		default:
			comps = append(comps, c)
		}
	}
	return
}

func refEscapes(p string) bool {
	_, up := normalize(p)
	return up > 0
}

func refWithin(path, dir string) bool {
	pc, pu := normalize(path)
	dc, du := normalize(dir)
	if pu != du || len(pc) < len(dc) {
		return false
	}
	for i := range dc {
		if pc[i] != dc[i] {
			return false
		}
	}
	return true
}

// G4: path kernels against the reference, for every string up to the bound
func VerifC11_G4_escape() {
	p := sym.StringNAlpha("p", tier(5, 7), "a./")
	sym.Assume(!strings.HasPrefix(p, "/")) // absolute paths are rejected before this kernel is used
	got := pathTriesToEscape(p)
	sym.Assert(got == refEscapes(p), "C11.G4.pathTriesToEscape-is-lexical-escape")
	if got {
		sym.Reach("C11.G4.escape.yes")
	} else {
		sym.Reach("C11.G4.escape.no")
	}
}

// ... and on longer paths assembled from the pieces that matter (a harmless-looking head, a climb, a tail)
func VerifC11_G4_escape_structured() {
	head := []string{"", "./", "a/", "a/../", "a/./", "./a/../"}[sym.Choice("head", 6)]
	climb := []string{"", "../", "../../"}[sym.Choice("climb", 3)]
	tail := sym.StringNAlpha("tail", 2, "a./")
	p := head + climb + tail
	sym.Assume(p != "")
	got := pathTriesToEscape(p)
	sym.Assert(got == refEscapes(p), "C11.G4.pathTriesToEscape-is-lexical-escape")
	sym.Reach("C11.G4.escape.structured")
}

func VerifC11_G4_within_workspace() {
	config.Global.WorkspaceRoot = "/w"
	pkg := []string{"", "a", "a/b"}[sym.Choice("pkg", 3)]
	rel := sym.StringNAlpha("rel", tier(5, 6), "a./")
	sym.Assume(!strings.HasPrefix(rel, "/"))
	ok, err := isWithinWorkspace("/w", pkg, rel)
	sym.Assert(err == nil, "C11.G4.isWithinWorkspace-no-error")
	_, up := normalize(pkg + "/" + rel)
	sym.Assert(ok == (up == 0), "C11.G4.isWithinWorkspace-is-lexical-containment")
	sym.Reach("C11.G4.within")
}

func VerifC11_G4_overlap() {
	t := &model.Target{Label: label.TL([]string{"", "a"}[sym.Choice("pkg", 2)], "t")}
	o1 := sym.StringNAlpha("o1", tier(4, 5), "ab./")
	o2 := sym.StringNAlpha("o2", tier(3, 4), "ab./")
	sym.Assume(!strings.HasPrefix(o1, "/") && !strings.HasPrefix(o2, "/"))
	p1, p2 := cleanOutputPath(t, o1), cleanOutputPath(t, o2)
	r1, r2 := t.Label.Package+"/"+o1, t.Label.Package+"/"+o2
	// paths that climb out of the workspace are rejected by the constraint check; outside this kernel's claim
	sym.Assume(!refEscapes(r1) && !refEscapes(r2))
	// declaring the workspace root itself as an output (cleaned path ".") is outside the claim
	sym.Assume(p1 != "." && p2 != ".")
	sym.Assert(pathWithin(p1, p2) == refWithin(r1, r2), "C11.G4.pathWithin-is-component-prefix")
	sym.Assert(pathsOverlap(p1, p2) == (refWithin(r1, r2) || refWithin(r2, r1)), "C11.G4.pathsOverlap-symmetric")
	sym.Reach("C11.G4.overlap")
}

// ---- graph level ----------------------------------------------------------------------

func mkLabel(i int) label.TargetLabel { return label.TL("p", fmt.Sprintf("n%d", i)) }

var undefinedLabel = label.TL("p", "undefined")

// G1a: BuildGraph rejects exactly: undefined dependency, self reference, cycle (through aliases too)
func VerifC11_G1_structure() {
	k := 3
	nodes := model.BuildNodeMap{}
	adj := make([][]bool, k) // adj[i][j]: j depends on i
	for i := range adj {
		adj[i] = make([]bool, k)
	}
	bad := false
	depOf := func(j, idx int) (label.TargetLabel, bool) {
		switch {
		case idx < k:
			if idx == j {
				bad = true // self reference
			}
			adj[idx][j] = true
			return mkLabel(idx), true
		case idx == k:
			bad = true // undefined
			return undefinedLabel, true
		}
		return label.TargetLabel{}, false
	}
	for j := 0; j < k; j++ {
		if sym.Choice(fmt.Sprintf("alias_%d", j), 2) == 1 {
			l, _ := depOf(j, sym.Choice(fmt.Sprintf("actual_%d", j), k+1))
			nodes[mkLabel(j)] = &model.Alias{Label: mkLabel(j), Actual: l}
			continue
		}
		t := &model.Target{Label: mkLabel(j)}
		if l, ok := depOf(j, sym.Choice(fmt.Sprintf("dep1_%d", j), k+2)); ok {
			t.Dependencies = append(t.Dependencies, l)
		}
		if l, ok := depOf(j, sym.Choice(fmt.Sprintf("dep2_%d", j), k+1)); ok && l != undefinedLabel {
			t.Dependencies = append(t.Dependencies, l)
		} else if ok {
			// second slot: index k means "none" here
			bad = bad // (unchanged)
		}
		nodes[mkLabel(j)] = t
	}
	_ = bad
	// recompute "bad" precisely from what was actually declared
	bad = false
	for i := range adj {
		for j := range adj[i] {
			adj[i][j] = false
		}
	}
	for j := 0; j < k; j++ {
		for _, d := range nodes[mkLabel(j)].GetDependencies() {
			if d == undefinedLabel {
				bad = true
				continue
			}
			for i := 0; i < k; i++ {
				if d == mkLabel(i) {
					adj[i][j] = true
				}
			}
		}
	}
	c := closureB(adj)
	for i := 0; i < k; i++ {
		if c[i][i] {
			bad = true // cycle or self loop
		}
	}
	_, err := BuildGraph(nodes)
	sym.Assert((err != nil) == bad, "C11.G1.rejects-exactly-undefined-selfref-cycle")
	if err != nil {
		sym.Reach("C11.G1.structure.rejected")
	} else {
		sym.Reach("C11.G1.structure.accepted")
	}
}

func closureB(adj [][]bool) [][]bool {
	k := len(adj)
	c := make([][]bool, k)
	for i := range c {
		c[i] = append([]bool{}, adj[i]...)
	}
	for m := 0; m < k; m++ {
		for i := 0; i < k; i++ {
			for j := 0; j < k; j++ {
				if c[i][m] && c[m][j] {
					c[i][j] = true
				}
			}
		}
	}
	return c
}

type outSpec struct {
	typ  string
	id   string
	norm string // reference identity: cleaned workspace-relative path, or docker tag
}

// output spellings: equivalence classes the kernels distinguish (package is "p")
var outMenu = []outSpec{
	{"file", "x", "p/x"}, {"file", "./x", "p/x"}, {"file", "d/../x", "p/x"}, {"file", "d/x", "p/d/x"},
	{"file", "d/e/../x", "p/d/x"}, {"file", "dx", "p/dx"}, {"dir", "d", "p/d"}, {"dir", "d/", "p/d"},
	{"dir", "d/e", "p/d/e"}, {"dir", ".", "p"}, {"docker", "img", "img"}, {"docker", "img2", "img2"},
	{"file", "../q/x", "q/x"}, {"dir", "../q", "q"},
}

func refOutputsConflict(a, b outSpec) bool {
	switch {
	case a.typ == "docker" || b.typ == "docker":
		return a.typ == b.typ && a.norm == b.norm
	case a.typ == "file" && b.typ == "file":
		return a.norm == b.norm
	case a.typ == "dir" && b.typ == "dir":
		return refWithin(a.norm, b.norm) || refWithin(b.norm, a.norm)
	case a.typ == "dir":
		return refWithin(b.norm, a.norm)
	default:
		return refWithin(a.norm, b.norm)
	}
}

// G1b: overlapping outputs are rejected exactly when the two targets are not ordered by dependency
func VerifC11_G1_outputs() {
	k := 3
	targets := make([]*model.Target, k)
	specs := make([]outSpec, k)
	nodes := model.BuildNodeMap{}
	for i := 0; i < k; i++ {
		specs[i] = outMenu[sym.Choice(fmt.Sprintf("out_%d", i), len(outMenu))]
		targets[i] = &model.Target{Label: mkLabel(i)}
		if i == 0 && specs[i].typ == "file" && sym.Choice("declared_as_bin_output_0", 2) == 1 {
			// a bin output is an output like any other as far as conflicts go
			targets[i].BinOutput = model.NewOutput("file", specs[i].id)
		} else {
			targets[i].Outputs = []model.Output{model.NewOutput(specs[i].typ, specs[i].id)}
		}
		nodes[mkLabel(i)] = targets[i]
	}
	adj := make([][]bool, k)
	for i := range adj {
		adj[i] = make([]bool, k)
	}
	for i := 0; i < k; i++ {
		for j := i + 1; j < k; j++ {
			// 0: no edge, 1: j depends on i directly, 2: j depends on i through an alias
			switch sym.Choice(fmt.Sprintf("e_%d_%d", i, j), 3) {
			case 1:
				adj[i][j] = true
				targets[j].Dependencies = append(targets[j].Dependencies, mkLabel(i))
			case 2:
				adj[i][j] = true
				al := label.TL("p", fmt.Sprintf("alias_%d_%d", i, j))
				nodes[al] = &model.Alias{Label: al, Actual: mkLabel(i)}
				targets[j].Dependencies = append(targets[j].Dependencies, al)
			}
		}
	}
	c := closureB(adj)
	want := false
	for i := 0; i < k; i++ {
		for j := i + 1; j < k; j++ {
			if !c[i][j] && !c[j][i] && refOutputsConflict(specs[i], specs[j]) {
				want = true
			}
		}
	}
	_, err := BuildGraph(nodes)
	sym.Assert((err != nil) == want, "C11.G1.rejects-exactly-unordered-overlapping-outputs")
	if err != nil {
		sym.Reach("C11.G1.outputs.rejected")
	} else {
		sym.Reach("C11.G1.outputs.accepted")
	}
}

// G1c: one target may declare several outputs, also nested ones (e.g. a bin output inside its
// dir output); a graph consisting of that single target has none of the listed defects.
func VerifC11_G1_single_target() {
	a := outMenu[sym.Choice("out_a", len(outMenu))]
	b := outMenu[sym.Choice("out_b", len(outMenu))]
	t := &model.Target{Label: mkLabel(0), Outputs: []model.Output{model.NewOutput(a.typ, a.id)}}
	if sym.Choice("bin", 2) == 1 && b.typ == "file" {
		t.BinOutput = model.NewOutput(b.typ, b.id)
	} else {
		t.Outputs = append(t.Outputs, model.NewOutput(b.typ, b.id))
	}
	other := &model.Target{Label: mkLabel(1), Outputs: []model.Output{model.NewOutput("docker", "unrelated")}}
	_, err := BuildGraph(model.BuildNodeMap{mkLabel(0): t, mkLabel(1): other})
	sym.Assert(err == nil, "C11.G1.single-target-outputs-never-conflict-with-themselves")
	sym.Reach("C11.G1.single")
}

// G2: per-target path constraints and dependency kind rules
func VerifC11_G2_paths() {
	config.Global.WorkspaceRoot = "/w"
	pkg := []string{"", "a", "a/b"}[sym.Choice("pkg", 3)]
	in := sym.StringNAlpha("in", tier(4, 5), "a./")
	out := sym.StringNAlpha("out", tier(4, 5), "a./")
	otype := []string{"file", "dir", "docker"}[sym.Choice("otype", 3)]
	t := &model.Target{Label: label.TL(pkg, "t"), Command: "c", Inputs: []string{in},
		Outputs: []model.Output{model.NewOutput(otype, out)}, Dependencies: []label.TargetLabel{label.TL(pkg, "d")}}
	d := &model.Target{Label: label.TL(pkg, "d"), Command: "c", Inputs: []string{"i"}}
	errs := CheckTargetConstraints(nil, model.BuildNodeMap{t.Label: t, d.Label: d})
	inBad := strings.HasPrefix(in, "/") || refEscapes(in)
	outBad := false
	if otype != "docker" {
		_, up := normalize(pkg + "/" + out)
		outBad = strings.HasPrefix(out, "/") || up > 0
	}
	sym.Assert((len(errs) > 0) == (inBad || outBad), "C11.G2.rejects-exactly-escaping-inputs-and-outputs")
	if len(errs) > 0 {
		sym.Reach("C11.G2.paths.rejected")
	} else {
		sym.Reach("C11.G2.paths.accepted")
	}
}

func VerifC11_G2_deprules() {
	config.Global.WorkspaceRoot = "/w"
	// top -> (alias ->)* dep ; kinds symbolic
	topTest := sym.Choice("top_test", 2) == 1
	topTestonly := sym.Choice("top_testonly", 2) == 1
	depTest := sym.Choice("dep_test", 2) == 1
	depTestonly := sym.Choice("dep_testonly", 2) == 1
	hops := sym.Choice("alias_hops", 3)
	name := func(base string, test bool) string {
		if test {
			return base + "_test"
		}
		return base
	}
	tags := func(testonly bool) []string {
		if testonly {
			return []string{model.TagTestOnly}
		}
		return nil
	}
	dep := &model.Target{Label: label.TL("p", name("dep", depTest)), Command: "c", Inputs: []string{"i"}, Tags: tags(depTestonly)}
	nodes := model.BuildNodeMap{dep.Label: dep}
	cur := dep.Label
	for h := 0; h < hops; h++ {
		a := &model.Alias{Label: label.TL("p", fmt.Sprintf("alias%d", h)), Actual: cur}
		nodes[a.Label] = a
		cur = a.Label
	}
	top := &model.Target{Label: label.TL("p", name("top", topTest)), Command: "c", Inputs: []string{"i"}, Tags: tags(topTestonly),
		Dependencies: []label.TargetLabel{cur}}
	nodes[top.Label] = top
	errs := CheckTargetConstraints(nil, nodes)
	want := (depTest && !topTest) || (depTestonly && !topTestonly && !topTest)
	sym.Assert((len(errs) > 0) == want, "C11.G2.rejects-exactly-nontest-depending-on-test-or-testonly")
	sym.Reach("C11.G2.deprules")
}

// G3: duplicate labels across targets / aliases / packages
func VerifC11_G3_duplicates() {
	names := []string{"x", "y"}
	mk := func(slot string) (model.BuildNode, label.TargetLabel) {
		l := label.TL("p", names[sym.Choice("name_"+slot, 2)])
		if sym.Choice("alias_"+slot, 2) == 1 {
			return &model.Alias{Label: l, Actual: label.TL("p", "z")}, l
		}
		return &model.Target{Label: l}, l
	}
	pkgs := []*model.Package{{Path: "p", Targets: map[label.TargetLabel]*model.Target{}, Aliases: map[label.TargetLabel]*model.Alias{}},
		{Path: "p", Targets: map[label.TargetLabel]*model.Target{}, Aliases: map[label.TargetLabel]*model.Alias{}}}
	n1, l1 := mk("1")
	n2, l2 := mk("2")
	put := func(p *model.Package, n model.BuildNode) {
		switch n := n.(type) {
		case *model.Target:
			p.Targets[n.Label] = n
		case *model.Alias:
			p.Aliases[n.Label] = n
		}
	}
	samePkg := sym.Choice("same_package", 2) == 1
	_, isT1 := n1.(*model.Target)
	_, isT2 := n2.(*model.Target)
	if samePkg && l1 == l2 && isT1 == isT2 {
		return // the same map slot: cannot be expressed (loader-level duplicate, see C16 harness)
	}
	put(pkgs[0], n1)
	if samePkg {
		put(pkgs[0], n2)
	} else {
		put(pkgs[1], n2)
	}
	_, err := model.BuildNodeMapFromPackages(pkgs)
	sym.Assert((err != nil) == (l1 == l2), "C11.G3.rejects-exactly-duplicate-labels")
	sym.Reach("C11.G3.duplicates")
}

// C19: detecting output conflicts must not enumerate dependency paths: two targets on top of a ladder
// (layered complete bipartite graph) that share an output force ancestor sets to be computed
func VerifC19_T_conflicts_ladder() {
	depth := 4 + sym.Choice("depth", tier(9, 11))
	nodes := model.BuildNodeMap{}
	name := func(d, a int) label.TargetLabel { return label.TL("p", fmt.Sprintf("l%02d_%d", d, a)) }
	for d := 0; d < depth; d++ {
		for a := 0; a < 2; a++ {
			t := &model.Target{Label: name(d, a)}
			if d > 0 {
				t.Dependencies = []label.TargetLabel{name(d-1, 0), name(d-1, 1)}
			}
			nodes[t.Label] = t
		}
	}
	// two consumers of the last layer that write the same file, ordered by a dependency (no conflict)
	c1 := &model.Target{Label: label.TL("p", "c1"), Dependencies: []label.TargetLabel{name(depth-1, 0), name(depth-1, 1)}, Outputs: []model.Output{model.NewOutput("file", "out")}}
	c2 := &model.Target{Label: label.TL("p", "c2"), Dependencies: []label.TargetLabel{c1.Label}, Outputs: []model.Output{model.NewOutput("file", "out")}}
	// and the first layer writes a file too, so that ordering needs the deep ancestor set
	nodes[name(0, 0)].(*model.Target).Outputs = []model.Output{model.NewOutput("file", "out")}
	nodes[c1.Label], nodes[c2.Label] = c1, c2
	v, e := 2*depth+2, 4*(depth-1)+3
	s0 := sym.Steps()
	_, err := BuildGraph(nodes)
	s1 := sym.Steps()
	sym.NoteInt("steps-buildgraph", s1-s0)
	sym.Assert(err == nil, "C19.T4.ordered-conflicting-outputs-accepted-on-ladder")
	sym.Assert(s1-s0 <= 40*(v+e)*(v+e), "C19.T4.conflict-detection-work-polynomial")
	sym.Reach("C19.T.conflicts-ladder")
}

// G1d: three unrelated targets with directory outputs of arbitrary (clean) names: rejected iff some
// pair is equal or nested. Names over an alphabet with characters on both sides of '/' in byte order,
// so that a sorted neighbour comparison ("d", "d-", "d/d") is inside the search space.
func VerifC11_G1_three_directories() {
	n := 3 // 4 characters leave solver answers unknown under load: not claimed
	nodes := model.BuildNodeMap{}
	ids := make([]string, 3)
	for i := range ids {
		id := sym.StringNAlpha(fmt.Sprintf("dir_%d", i), n, "d-/")
		sym.Assume(id != "")
		sym.Assume(!sym.HasPrefix(id, "/") && !sym.HasSuffix(id, "/") && !sym.Contains(id, "//"))
		ids[i] = id
		nodes[mkLabel(i)] = &model.Target{Label: mkLabel(i), Outputs: []model.Output{model.NewOutput("dir", id)}}
	}
	within := func(a, b string) bool { return sym.Or(sym.StrEq(a, b), sym.HasPrefix(a, b+"/")) }
	want := false
	for i := 0; i < 3; i++ {
		for j := i + 1; j < 3; j++ {
			want = sym.Or(want, sym.Or(within(ids[i], ids[j]), within(ids[j], ids[i])))
		}
	}
	_, err := BuildGraph(nodes)
	sym.Assert(sym.Iff(err != nil, want), "C11.G1.three-directories-rejected-iff-some-pair-nested")
	sym.Reach("C11.G1.three-directories")
}
