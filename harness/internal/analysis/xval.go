//go:build verif

package analysis

import (
	"fmt"

	"grog/internal/config"
	"grog/internal/label"
	"grog/internal/model"
	"grog/internal/zzverif/sym"
)

func VerifXval_analysis() {
	config.Global.WorkspaceRoot = "/ws"
	for _, p := range []string{"a", "../a", "a/../b", "a/../../b", "..", ".", "", "./..", "a/./b/..", "...", "../", "a//b", "/abs"} {
		sym.Transcript(fmt.Sprintf("escape %q -> %v", p, pathTriesToEscape(p)))
		for _, pkg := range []string{"", "a", "a/b"} {
			ok, err := isWithinWorkspace("/ws", pkg, p)
			sym.Transcript(fmt.Sprintf("  within %q %q -> %v %v", pkg, p, ok, err != nil))
		}
	}
	t := &model.Target{Label: label.TL("p/q", "t")}
	paths := []string{"x", "./x", "d/../x", "d", "d/", "d/x", "../x", "../../x", "."}
	for _, a := range paths {
		for _, b := range paths {
			pa, pb := cleanOutputPath(t, a), cleanOutputPath(t, b)
			sym.Transcript(fmt.Sprintf("paths %q %q -> %s %s within=%v overlap=%v", a, b, pa, pb, pathWithin(pa, pb), pathsOverlap(pa, pb)))
		}
	}
	mk := func(name string, outs []string, deps ...string) *model.Target {
		tg := &model.Target{Label: label.TL("p", name), Command: "c", Inputs: []string{"i"}}
		for _, o := range outs {
			tg.Outputs = append(tg.Outputs, model.NewOutput("file", o))
		}
		for _, d := range deps {
			tg.Dependencies = append(tg.Dependencies, label.TL("p", d))
		}
		return tg
	}
	graphs := [][]*model.Target{
		{mk("a", []string{"x"}), mk("b", []string{"x"})},
		{mk("a", []string{"x"}), mk("b", []string{"x"}, "a")},
		{mk("a", nil, "b"), mk("b", nil, "a")},
		{mk("a", nil, "a")},
		{mk("a", nil, "missing")},
		{mk("a", []string{"d/x"}), mk("b", []string{"./d/x"}), mk("c", nil, "a", "b")},
	}
	for i, g := range graphs {
		nodes := model.BuildNodeMap{}
		for _, tg := range g {
			nodes[tg.Label] = tg
		}
		_, err := BuildGraph(nodes)
		sym.Transcript(fmt.Sprintf("graph %d rejected=%v constraints=%d", i, err != nil, len(CheckTargetConstraints(nil, nodes))))
	}
}
