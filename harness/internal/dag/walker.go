//go:build verif

package dag

import (
	"context"
	"errors"
	"fmt"

	"grog/internal/label"
	"grog/internal/model"
	"grog/internal/zzverif/sym"
)

// shapes: edges i->j mean "j depends on i"; sel = selected nodes (closed under dependencies)
type wshape struct {
	n     int
	edges [][2]int
	unsel []int
	alias []int // nodes that are aliases (they carry no work but order their dependants)
}

var wshapes = []wshape{
	{n: 2, edges: [][2]int{{0, 1}}},                                 // chain of 2
	{n: 3, edges: [][2]int{{0, 1}, {1, 2}}},                         // chain of 3
	{n: 3, edges: [][2]int{{0, 1}, {0, 2}}},                         // fork
	{n: 3, edges: [][2]int{{0, 2}, {1, 2}}},                         // join
	{n: 3, edges: [][2]int{{0, 1}}, unsel: []int{2}},                // chain + unselected independent node
	{n: 3, edges: [][2]int{{0, 1}, {1, 2}}, unsel: []int{2}},        // unselected dependant
	{n: 4, edges: [][2]int{{0, 1}, {0, 2}, {1, 3}, {2, 3}}},         // diamond
	{n: 4, edges: [][2]int{{0, 2}, {1, 2}, {2, 3}}},                 // join then chain
	{n: 4, edges: [][2]int{{0, 1}, {1, 3}, {2, 3}}, alias: []int{1}}, // join with one dependency behind an alias
	{n: 3, edges: [][2]int{{0, 1}, {1, 2}}, alias: []int{1}},         // chain through an alias
	{n: 3, edges: [][2]int{{0, 2}, {0, 2}, {1, 2}}},                  // join whose first dependency is listed twice (the loader keeps duplicates)
	{n: 3, edges: [][2]int{{0, 1}}},                                  // a chain of 2 beside an independent node
}

type walkMonitor struct {
	n         int
	dep       [][]bool // dep[i][j]: j depends (transitively) on i
	started   []int
	finished  []bool // callback returned successfully
	failed    []bool
	selected  []bool
	running   int
	maxRun    int
	liveCtxAfterCancel bool
	lateSuccess        []bool // callback returned success although its context was already cancelled
}

// wIgnoreCancel: callbacks complete successfully even when their context has been cancelled meanwhile
var wIgnoreCancel bool

func nodeIndex(n model.BuildNode) int {
	name := n.GetLabel().Name
	return int(name[1] - '0')
}

func buildWalkGraph(sh wshape) ([]model.BuildNode, *DirectedTargetGraph, *walkMonitor) {
	nodes := make([]model.BuildNode, sh.n)
	for i := range nodes {
		nodes[i] = &model.Target{Label: label.TL("p", fmt.Sprintf("n%d", i)), IsSelected: true}
	}
	for _, a := range sh.alias {
		nodes[a] = &model.Alias{Label: label.TL("p", fmt.Sprintf("n%d", a)), IsSelected: true}
	}
	for _, u := range sh.unsel {
		nodes[u].(*model.Target).IsSelected = false
	}
	for _, e := range sh.edges {
		if al, ok := nodes[e[1]].(*model.Alias); ok {
			al.Actual = nodes[e[0]].GetLabel()
		}
	}
	g := NewDirectedGraphFromTargets(nodes...)
	m := &walkMonitor{n: sh.n, lateSuccess: make([]bool, sh.n), started: make([]int, sh.n), finished: make([]bool, sh.n), failed: make([]bool, sh.n), selected: make([]bool, sh.n)}
	m.dep = make([][]bool, sh.n)
	for i := range m.dep {
		m.dep[i] = make([]bool, sh.n)
	}
	for _, e := range sh.edges {
		if err := g.AddEdge(nodes[e[0]], nodes[e[1]]); err != nil {
			panic(err)
		}
		m.dep[e[0]][e[1]] = true
	}
	m.dep = closure(m.dep)
	for i := range nodes {
		m.selected[i] = nodes[i].GetIsSelected()
	}
	return nodes, g, m
}

var errBoom = errors.New("target failed")

// walkScenario runs one Walk with the given failing node (-1: none), fail-fast flag and optional
// external cancellation, and checks the monitor obligations.
func walkScenario(prefix string, sh wshape, failing int, failFast bool, externalCancel bool) {
	_, g, m := buildWalkGraph(sh)
	ctx, cancel := context.WithCancel(context.Background())
	defer cancel()
	cancelled := false
	cb := func(cctx context.Context, node model.BuildNode) (CacheResult, error) {
		i := nodeIndex(node)
		m.started[i]++
		sym.Assert(m.started[i] == 1, prefix+".W-once.callback-entered-at-most-once-per-node")
		sym.Assert(m.selected[i], prefix+".W-sel.only-selected-nodes-run")
		for d := 0; d < m.n; d++ {
			if m.dep[d][i] {
				sym.Assert(m.finished[d], prefix+".W-order.every-dependency-finished-successfully-first")
				// fail-fast: a dependency that completed only after the failure had been observed (its
				// context was already cancelled) does not release its dependants any more
				sym.Assert(!m.lateSuccess[d], prefix+".W-ff.no-target-becomes-ready-after-the-failure-was-observed")
			}
		}
		if cctx.Err() == nil && cancelled && !externalCancelRacing {
			// (documented window: a callback may be entered while cancellation is being delivered)
		}
		m.running++
		if m.running > m.maxRun {
			m.maxRun = m.running
		}
		if wIgnoreCancel && !externalCancel && failing >= 0 && i != failing && !m.dep[i][failing] {
			// this target's work ends at the very moment the walk is cancelled (the failure has been
			// observed): it still completes successfully
			<-cctx.Done()
		} else {
			sym.Yield() // arbitrary latency, including zero
		}
		m.running--
		if err := cctx.Err(); err != nil {
			if !wIgnoreCancel || externalCancel {
				// contract of the executor callback: a cancelled context yields the context's error
				return CacheMiss, err
			}
			// ... unless the work was already done when the cancellation arrived (the command exited at
			// that very moment, or the target was being restored from the cache)
			if i != failing {
				m.lateSuccess[i] = true
				sym.Reach(prefix + ".W-ff.a-target-completed-after-the-failure-was-observed")
			}
		}
		if i == failing {
			m.failed[i] = true
			return CacheMiss, errBoom
		}
		m.finished[i] = true
		return CacheHit, nil
	}
	w := NewWalker(g, cb, failFast)
	if externalCancel {
		// the cancellation (Ctrl-C) arrives either as soon as Walk first blocks, or as an external event
		// before any visible step of the walk (one deviation, leaving the rest of the budget for the
		// interleaving around it)
		late := flag("cancel_arrives_as_external_event")
		go func() {
			if late {
				sym.ExternalEvent("cancel")
			} else {
				sym.Yield()
			}
			cancelled = true
			cancel()
		}()
	}
	completions, err := w.Walk(ctx)
	sym.Reach(prefix + ".walk-returned")
	// fail-fast and cancellation let Walk return while node routines are still running: what they
	// do afterwards (callbacks entered, maps written) is still the walker's behaviour
	sym.Quiesce()
	if externalCancel {
		return // resolution of the remaining nodes is "skipped because the build was cancelled"
	}
	sym.Assert(err == nil, prefix+".W-term.walk-returns-without-error")
	// W-total: every selected node is resolved: succeeded, failed, or skipped for a reason
	for i := 0; i < m.n; i++ {
		if !m.selected[i] {
			sym.Assert(m.started[i] == 0, prefix+".W-sel.unselected-node-never-started")
			continue
		}
		c, done := completions[label.TL("p", fmt.Sprintf("n%d", i))]
		blocked := failing >= 0 && m.dep[failing][i]
		switch {
		case i == failing:
			sym.Assert(done && !c.IsSuccess, prefix+".W-total.failed-node-recorded-as-failed")
		case blocked:
			sym.Assert(m.started[i] == 0, prefix+".C05.dependant-of-failed-target-is-not-executed")
		case failing < 0 || !failFast:
			// keep-going: everything not depending on the failure is still built
			sym.Assert(done && c.IsSuccess && m.started[i] == 1, prefix+".C05.independent-targets-are-still-built")
		}
	}
	errs := completions.GetErrors()
	sym.Assert((len(errs) > 0) == (failing >= 0 && m.started[failing] > 0), prefix+".C05.errors-reported-iff-a-target-failed")
}

var externalCancelRacing = false

func pickFailing(sh wshape, allowNone bool) (int, bool) {
	n := sh.n
	if allowNone {
		n++
	}
	f := sym.Choice("failing_node", n)
	if allowNone {
		f--
	}
	for _, u := range sh.unsel {
		if u == f {
			return 0, false
		}
	}
	for _, a := range sh.alias {
		if a == f {
			return 0, false // aliases do not execute anything and cannot fail
		}
	}
	return f, true
}

// C03: ordering, at-most-once, selection - every shape, optional failure, both modes, every schedule
// within the deviation bound
func VerifC03_W_walk() {
	small := []int{0, 1, 2, 3, 4, 5, 9, 10, 11} // the shapes with <=3 nodes
	sh := wshapes[small[sym.Choice("shape", len(small))]]
	failing, ok := pickFailing(sh, true)
	if !ok {
		return
	}
	walkScenario("C03", sh, failing, flag("fail_fast"), false)
}

// ... the 4-node shapes (diamond, join-then-chain, join behind an alias): smaller deviation bound in the quick tier
func VerifC03_W_walk_4nodes() {
	large := []int{6, 7, 8}
	sh := wshapes[large[sym.Choice("shape", len(large))]]
	failing, ok := pickFailing(sh, true)
	if !ok {
		return
	}
	walkScenario("C03", sh, failing, flag("fail_fast"), false)
}

// C05: containment of failures (keep-going / fail-fast)
func VerifC05_W_containment() {
	sh := wshapes[[]int{1, 2, 3}[sym.Choice("shape", 3)]]
	failing, ok := pickFailing(sh, false)
	if !ok {
		return
	}
	walkScenario("C05", sh, failing, flag("fail_fast"), false)
}

// ... on the diamond (explored with a smaller deviation bound in the quick tier)
func VerifC05_W_containment_diamond() {
	sh := wshapes[6]
	failing, ok := pickFailing(sh, false)
	if !ok {
		return
	}
	walkScenario("C05", sh, failing, flag("fail_fast"), false)
}

// C05, fail-fast: targets that were running when the failure was observed and still complete
// successfully (their work ended as the cancellation arrived) release nothing any more
func VerifC05_W_failfast_late_success() {
	sh := wshapes[[]int{11, 6}[sym.Choice("shape", 2)]]
	failing, ok := pickFailing(sh, false)
	if !ok {
		return
	}
	wIgnoreCancel = true
	walkScenario("C05", sh, failing, true, false)
	wIgnoreCancel = false
}

// C04: Walk returns (no deadlock, no crash) for every failure pattern and mode ...
func VerifC04_W_terminates() {
	sh := wshapes[sym.Choice("shape", tier(4, len(wshapes)))]
	failing, ok := pickFailing(sh, true)
	if !ok {
		return
	}
	walkScenario("C04", sh, failing, flag("fail_fast"), false)
}

// ... and under external cancellation at an arbitrary point
func VerifC04_W_cancel() {
	sh := wshapes[sym.Choice("shape", 4)]
	walkScenario("C04.cancel", sh, -1, flag("fail_fast"), true)
}
