//go:build verif

package dag

import (
	"context"
	"errors"
	"fmt"

	"grog/internal/label"
	"grog/internal/model"
	"grog/internal/zzverif/sym"
)

func flag(name string) bool { return sym.Choice(name, 2) == 1 }

func tier(q, t int) int {
	if sym.Tier() == "thorough" {
		return t
	}
	return q
}

// symGraph builds a DAG over k nodes (n0..nk-1) in which every forward edge i->j (i<j)
// is a symbolic boolean, and node kinds are symbolic (target / alias). Returns the nodes,
// the graph and the adjacency matrix as concrete booleans on this path.
func symGraph(k int, aliases bool) ([]model.BuildNode, *DirectedTargetGraph, [][]bool) {
	nodes := make([]model.BuildNode, k)
	for i := 0; i < k; i++ {
		l := label.TL("p", fmt.Sprintf("n%d", i))
		if aliases && i > 0 && i < k-1 && flag(fmt.Sprintf("alias_%d", i)) {
			nodes[i] = &model.Alias{Label: l}
		} else {
			nodes[i] = &model.Target{Label: l}
		}
	}
	g := NewDirectedGraphFromTargets(nodes...)
	adj := make([][]bool, k)
	for i := range adj {
		adj[i] = make([]bool, k)
	}
	for i := 0; i < k; i++ {
		for j := i + 1; j < k; j++ {
			if flag(fmt.Sprintf("e_%d_%d", i, j)) {
				adj[i][j] = true
				if err := g.AddEdge(nodes[i], nodes[j]); err != nil {
					sym.Failf("C20.addedge-error")
				}
			}
		}
	}
	return nodes, g, adj
}

func closure(adj [][]bool) [][]bool {
	k := len(adj)
	c := make([][]bool, k)
	for i := range c {
		c[i] = append([]bool{}, adj[i]...)
	}
	for m := 0; m < k; m++ {
		for i := 0; i < k; i++ {
			for j := 0; j < k; j++ {
				if c[i][m] && c[m][j] {
					c[i][j] = true
				}
			}
		}
	}
	return c
}

func indexOf(nodes []model.BuildNode, n model.BuildNode) int {
	for i, x := range nodes {
		if x == n {
			return i
		}
	}
	return -1
}

// Q1-Q3: transitive queries return exactly the closure, each node once, and are mutual inverses.
func VerifC20_Q_closure() {
	k := tier(4, 5)
	nodes, g, adj := symGraph(k, true)
	c := closure(adj)
	for x := 0; x < k; x++ {
		desc := g.GetDescendants(nodes[x])
		anc := g.GetAncestors(nodes[x])
		seenD := make([]int, k)
		for _, d := range desc {
			seenD[indexOf(nodes, d)]++
		}
		seenA := make([]int, k)
		for _, a := range anc {
			seenA[indexOf(nodes, a)]++
		}
		for y := 0; y < k; y++ {
			sym.Assert((seenD[y] > 0) == c[x][y], "C20.Q1.descendants-are-out-closure")
			sym.Assert((seenA[y] > 0) == c[y][x], "C20.Q1.ancestors-are-in-closure")
			sym.Assert(seenD[y] <= 1, "C20.Q2.descendants-each-once")
			sym.Assert(seenA[y] <= 1, "C20.Q2.ancestors-each-once")
		}
		// direct queries
		deps := g.GetDependencies(nodes[x])
		dpts := g.GetDependants(nodes[x])
		nd, np := 0, 0
		for y := 0; y < k; y++ {
			if adj[y][x] {
				nd++
			}
			if adj[x][y] {
				np++
			}
		}
		sym.Assert(len(deps) == nd && len(dpts) == np, "C20.Q1.direct-sets")
		for _, d := range deps {
			sym.Assert(adj[indexOf(nodes, d)][x], "C20.Q1.direct-deps-are-edges")
		}
		for _, d := range dpts {
			sym.Assert(adj[x][indexOf(nodes, d)], "C20.Q1.direct-dependants-are-edges")
		}
	}
	// Q3: a in Anc(b) <=> b in Desc(a)
	for a := 0; a < k; a++ {
		for b := 0; b < k; b++ {
			inDesc := false
			for _, d := range g.GetDescendants(nodes[a]) {
				if d == nodes[b] {
					inDesc = true
				}
			}
			inAnc := false
			for _, x := range g.GetAncestors(nodes[b]) {
				if x == nodes[a] {
					inAnc = true
				}
			}
			sym.Assert(inDesc == inAnc, "C20.Q3.deps-rdeps-inverse")
		}
	}
	sym.Reach("C20.Q.closure")
}

// T1: one traversal expands no more than a small polynomial number of nodes.
// Every edge set over k nodes is explored; the bound (V+E+1)^2 is generous for any
// visited-set traversal (<= V+E) and is exceeded by path-enumerating recursion on the
// ladder family below.
func VerifC19_T_small() {
	k := tier(5, 6)
	nodes, g, adj := symGraph(k, false)
	e := 0
	for i := range adj {
		for j := range adj[i] {
			if adj[i][j] {
				e++
			}
		}
	}
	bound := k + e + 1
	sym.CountCalls("(*grog/internal/dag.DirectedTargetGraph).GetDescendants")
	sym.CountCalls("(*grog/internal/dag.DirectedTargetGraph).GetAncestors")
	g.GetDescendants(nodes[0])
	g.GetAncestors(nodes[k-1])
	sym.Assert(sym.Calls("(*grog/internal/dag.DirectedTargetGraph).GetDescendants") <= bound, "C19.T1.descendants-linear-small")
	sym.Assert(sym.Calls("(*grog/internal/dag.DirectedTargetGraph).GetAncestors") <= bound, "C19.T1.ancestors-linear-small")
	sym.Reach("C19.T.small")
}

// ladder builds `depth` layers of width 2 with complete bipartite edges between
// consecutive layers: 2*depth nodes, 4*(depth-1) edges, 2^depth root-to-leaf paths.
func ladder(depth int) ([]model.BuildNode, *DirectedTargetGraph) {
	var nodes []model.BuildNode
	for i := 0; i < 2*depth; i++ {
		nodes = append(nodes, &model.Target{Label: label.TL("p", fmt.Sprintf("l%d", i))})
	}
	g := NewDirectedGraphFromTargets(nodes...)
	for d := 0; d+1 < depth; d++ {
		for a := 0; a < 2; a++ {
			for b := 0; b < 2; b++ {
				_ = g.AddEdge(nodes[2*d+a], nodes[2*(d+1)+b])
			}
		}
	}
	return nodes, g
}

func VerifC19_T_ladder() {
	depth := 4 + sym.Choice("depth", tier(9, 11)) // 4..12 / 4..14 layers
	nodes, g := ladder(depth)
	v, e := 2*depth, 4*(depth-1)
	bound := (v + e) * (v + e)
	sym.CountCalls("(*grog/internal/dag.DirectedTargetGraph).GetDescendants")
	sym.CountCalls("(*grog/internal/dag.DirectedTargetGraph).GetAncestors")
	s0 := sym.Steps()
	d := g.GetDescendants(nodes[0])
	s1 := sym.Steps()
	a := g.GetAncestors(nodes[v-1])
	s2 := sym.Steps()
	sym.NoteInt("steps-desc", s1-s0)
	sym.NoteInt("steps-anc", s2-s1)
	// interpreted SSA instructions: a visited-set traversal needs ~40 per edge (2.7k at 12 layers); path enumeration
	// needs ~26 * 2^depth (106k at 12 layers); the bound 10*(V+E)^2 (46k at 12 layers) admits any quadratic algorithm
	sym.Assert(s1-s0 <= 10*bound && s2-s1 <= 10*bound, "C19.T2.ladder-work-polynomial")
	sym.Assert(len(d) == v-2 && len(a) == v-2, "C19.T2.ladder-results-are-sets")
	sym.Assert(sym.Calls("(*grog/internal/dag.DirectedTargetGraph).GetDescendants") <= bound, "C19.T2.descendants-polynomial-on-ladder")
	sym.Assert(sym.Calls("(*grog/internal/dag.DirectedTargetGraph).GetAncestors") <= bound, "C19.T2.ancestors-polynomial-on-ladder")
	sym.Reach("C19.T.ladder")
}

// T5: failure propagation in the walker (keep-going: every descendant of the failed node is
// cancelled) on ladders: the whole walk stays within a quadratic amount of work; an
// implementation that cancels once per path needs 2^depth steps.
func VerifC19_T_walker_failure_ladder() {
	depth := 4 + sym.Choice("depth", tier(9, 11))
	nodes, g := ladder(depth)
	for _, n := range nodes {
		n.Select()
	}
	v, e := 2*depth, 4*(depth-1)
	bound := (v + e) * (v + e)
	boom := errors.New("target failed")
	ran := 0
	w := NewWalker(g, func(ctx context.Context, node model.BuildNode) (CacheResult, error) {
		ran++
		if node == nodes[0] {
			return CacheMiss, boom
		}
		return CacheHit, nil
	}, false)
	s0 := sym.Steps()
	_, err := w.Walk(context.Background())
	sym.Quiesce()
	s1 := sym.Steps()
	sym.NoteInt("steps-walk", s1-s0)
	sym.Assert(err == nil, "C19.T5.walk-returns")
	// only the two roots run: everything else depends on the failed root
	sym.Assert(ran == 2, "C19.T5.descendants-of-the-failure-do-not-run")
	sym.Assert(s1-s0 <= 40*bound, "C19.T5.failure-propagation-work-polynomial")
	sym.Reach("C19.T.walker-failure")
}

// T6: a fully successful walk of a ladder (every node runs) stays polynomial as well: the readiness
// check after each completion looks at direct dependencies, not at every path below them
func VerifC19_T_walker_success_ladder() {
	depth := 4 + sym.Choice("depth", tier(7, 9))
	nodes, g := ladder(depth)
	for _, n := range nodes {
		n.Select()
	}
	v, e := 2*depth, 4*(depth-1)
	bound := (v + e) * (v + e)
	ran := 0
	w := NewWalker(g, func(ctx context.Context, node model.BuildNode) (CacheResult, error) {
		ran++
		return CacheHit, nil
	}, false)
	s0 := sym.Steps()
	_, err := w.Walk(context.Background())
	sym.Quiesce()
	s1 := sym.Steps()
	sym.NoteInt("steps-walk", s1-s0)
	sym.Assert(err == nil && ran == v, "C19.T6.every-node-of-the-ladder-runs")
	sym.Assert(s1-s0 <= 40*bound, "C19.T6.successful-walk-work-polynomial")
	sym.Reach("C19.T.walker-success")
}
