//go:build verif

package dag

import (
	"fmt"
	"sort"
	"strings"

	"grog/internal/label"
	"grog/internal/model"
	"grog/internal/zzverif/sym"
)

func names(ns []model.BuildNode) string {
	var out []string
	for _, n := range ns {
		out = append(out, n.GetLabel().Name)
	}
	sort.Strings(out)
	return strings.Join(out, ",")
}

func VerifXval_dag() {
	var nodes []model.BuildNode
	for i := 0; i < 6; i++ {
		nodes = append(nodes, &model.Target{Label: label.TL("p", fmt.Sprintf("n%d", i))})
	}
	g := NewDirectedGraphFromTargets(nodes...)
	for _, e := range [][2]int{{0, 1}, {0, 2}, {1, 3}, {2, 3}, {3, 4}, {2, 4}} {
		if err := g.AddEdge(nodes[e[0]], nodes[e[1]]); err != nil {
			sym.Transcript("addedge error")
		}
	}
	for _, n := range nodes {
		sym.Transcript(fmt.Sprintf("%s deps=%s dependants=%s anc=%s desc=%s", n.GetLabel().Name, names(g.GetDependencies(n)), names(g.GetDependants(n)), names(g.GetAncestors(n)), names(g.GetDescendants(n))))
	}
	sym.Transcript(fmt.Sprintf("cycle=%v self=%v", g.HasCycle(), g.AddEdge(nodes[0], nodes[0]) != nil))
	_ = g.AddEdge(nodes[4], nodes[0])
	cyc, has := g.FindCycle()
	sym.Transcript(fmt.Sprintf("cycle=%v len=%d", has, len(cyc)))
	nodes[0].Select()
	nodes[3].Select()
	sym.Transcript("selected=" + names(g.GetSelectedNodes()) + " sub=" + names(g.GetSelectedSubgraph().GetDependants(nodes[0])))
}
