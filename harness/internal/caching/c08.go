//go:build verif

package caching

import (
	"context"
	"errors"
	"io"
	"strings"
	"sync"

	"grog/internal/caching/backends"
	"grog/internal/config"
	"grog/internal/proto/gen"
	"grog/internal/zzverif/sym"
)

func flag(name string) bool { return sym.Choice(name, 2) == 1 }

type memRemote struct {
	data       map[string]string
	failSet    bool
	failExists bool
}

func (m *memRemote) TypeName() string { return "mem" }
func (m *memRemote) Get(ctx context.Context, path, key string) (io.ReadCloser, error) {
	c, ok := m.data[path+"/"+key]
	if !ok {
		return nil, errors.New("no such object")
	}
	return io.NopCloser(strings.NewReader(c)), nil
}
func (m *memRemote) Set(ctx context.Context, path, key string, content io.Reader) error {
	b, err := io.ReadAll(content)
	if err != nil {
		return err
	}
	if m.failSet {
		return errors.New("remote unavailable")
	}
	m.data[path+"/"+key] = string(b)
	return nil
}
func (m *memRemote) Delete(ctx context.Context, path, key string) error {
	delete(m.data, path+"/"+key)
	return nil
}
func (m *memRemote) Exists(ctx context.Context, path, key string) (bool, error) {
	if m.failExists {
		return false, errors.New("remote unavailable")
	}
	_, ok := m.data[path+"/"+key]
	return ok, nil
}

// R1: every result a successful build writes, and every blob it references, is retrievable from the
// remote store afterwards - also when the blob already existed in the local cache (earlier build
// without a remote, or an earlier upload that failed).
func VerifC08_R_no_dangling_remote_reference() {
	ctx := context.Background()
	config.Global.Root = "/grogroot"
	config.Global.WorkspaceRoot = "/w"
	content := sym.StringAlpha("content", 2, "ab")
	digest := "d1"
	fs, err := backends.NewFileSystemCache(ctx)
	if err != nil {
		panic(err)
	}
	remote := &memRemote{data: map[string]string{}}
	history := sym.Choice("history", 3) // 0 fresh, 1 earlier build without remote, 2 earlier upload failed
	switch history {
	case 1:
		c0 := NewCas(fs)
		sym.Assert(c0.Write(ctx, digest, strings.NewReader(content)) == nil, "C08.setup.local-only-build")
	case 2:
		remote.failSet = true
		c0 := NewCas(backends.NewRemoteWrapper(fs, remote))
		_ = c0.Write(ctx, digest, strings.NewReader(content))
		remote.failSet = false
	}
	// the build on the remote-enabled configuration (a new process); the remote's Head may be failing
	remote.failExists = flag("remote_head_fails")
	be := backends.NewRemoteWrapper(fs, remote)
	cas := NewCas(be)
	trc := NewTargetResultCache(be)
	// earlier in the same build the blob may have been looked at or read (another target's restore):
	// what this process learned from a local hit says nothing about the remote store
	switch sym.Choice("earlier_use_in_this_build", 4) {
	case 1:
		if rc, lerr := cas.Load(ctx, digest); lerr == nil {
			_, _ = io.ReadAll(rc)
			_ = rc.Close()
		}
	case 2:
		_, _ = cas.LoadBytes(ctx, digest)
	case 3:
		_, _ = cas.Exists(ctx, digest)
	}
	werr := cas.Write(ctx, digest, strings.NewReader(content))
	// a reported failure is fine (the build fails); what must not happen is a silent skip
	sym.Assert(werr == nil || remote.failExists, "C08.R1.blob-write-fails-only-on-remote-errors")
	if werr != nil {
		return
	}
	tr := &gen.TargetResult{ChangeHash: "k", OutputHash: "o", Outputs: []*gen.Output{{Kind: &gen.Output_File{File: &gen.FileOutput{Path: "out", Digest: &gen.Digest{Hash: digest}}}}}}
	sym.Assert(trc.Write(ctx, tr) == nil, "C08.R1.result-write-succeeds")
	_, hasResult := remote.data["target/k"]
	sym.Assert(hasResult, "C08.R1.result-is-in-the-remote-store")
	got, hasBlob := remote.data["cas/"+digest]
	sym.Assert(hasBlob, "C08.R1.referenced-blob-is-in-the-remote-store")
	if hasBlob {
		sym.Assert(sym.StrEq(got, content), "C08.R1.remote-blob-has-the-content")
	}
	sym.Reach("C08.R.dangling")
}

// R1 under concurrency: two targets of one build write the same digest at the same time while the
// remote store rejects the first upload it sees. Whoever is told that the write succeeded may record
// a result that references the blob, so the blob must then be in the remote store.
type flakyRemote struct {
	memRemote
	mu       sync.Mutex
	failures int // the next n Set calls fail
}

func (f *flakyRemote) Set(ctx context.Context, path, key string, content io.Reader) error {
	b, err := io.ReadAll(content)
	if err != nil {
		return err
	}
	f.mu.Lock()
	defer f.mu.Unlock()
	if f.failures > 0 {
		f.failures--
		return errors.New("remote unavailable")
	}
	f.data[path+"/"+key] = string(b)
	return nil
}

func (f *flakyRemote) Exists(ctx context.Context, path, key string) (bool, error) {
	f.mu.Lock()
	defer f.mu.Unlock()
	_, ok := f.data[path+"/"+key]
	return ok, nil
}

func VerifC08_R_concurrent_writers_of_one_digest() {
	ctx := context.Background()
	config.Global.Root = "/grogroot"
	config.Global.WorkspaceRoot = "/w"
	fs, err := backends.NewFileSystemCache(ctx)
	if err != nil {
		panic(err)
	}
	remote := &flakyRemote{memRemote: memRemote{data: map[string]string{}}, failures: sym.Choice("failing_uploads", 3)}
	cas := NewCas(backends.NewRemoteWrapper(fs, remote))
	errs := make([]error, 2)
	returned := make([]bool, 2)
	done := make(chan int, 2)
	for i := 0; i < 2; i++ {
		i := i
		go func() {
			errs[i] = cas.Write(ctx, "d1", strings.NewReader("blob"))
			returned[i] = true
			done <- i
		}()
	}
	<-done
	<-done
	_, inRemote := remote.data["cas/d1"]
	for i := 0; i < 2; i++ {
		if errs[i] == nil {
			sym.Assert(inRemote, "C08.R1.successful-write-means-the-blob-is-in-the-remote-store")
		}
	}
	sym.Reach("C08.R.concurrent-writers")
}
