//go:build verif

package backends

import (
	"context"
	"fmt"
	"io"
	"os"
	"strings"

	"grog/internal/config"
	"grog/internal/zzverif/sym"
)

func VerifXval_backends() {
	ctx := context.Background()
	config.Global.Root = sym.TempDir("grogroot")
	config.Global.WorkspaceRoot = "/w"
	fs, err := NewFileSystemCache(ctx)
	sym.Transcript(fmt.Sprintf("new err=%v", err != nil))
	get := func(b CacheBackend, path, key string) string {
		r, err := b.Get(ctx, path, key)
		if err != nil {
			return "<err notexist=" + fmt.Sprint(os.IsNotExist(err)) + ">"
		}
		d, _ := io.ReadAll(r)
		_ = r.Close()
		return string(d)
	}
	ex, _ := fs.Exists(ctx, "cas", "k")
	sym.Transcript(fmt.Sprintf("exists0=%v get0=%s", ex, get(fs, "cas", "k")))
	sym.Transcript(fmt.Sprintf("set=%v", fs.Set(ctx, "cas", "k", strings.NewReader("v1")) != nil))
	sym.Transcript(fmt.Sprintf("set2=%v", fs.Set(ctx, "cas", "nested/k2", strings.NewReader("v2")) != nil))
	sym.Transcript(fmt.Sprintf("overwrite=%v", fs.Set(ctx, "cas", "k", strings.NewReader("v1b")) != nil))
	ex, _ = fs.Exists(ctx, "cas", "k")
	sym.Transcript(fmt.Sprintf("exists1=%v get1=%s get2=%s", ex, get(fs, "cas", "k"), get(fs, "cas", "nested/k2")))
	sym.Transcript(fmt.Sprintf("delete=%v delete-again=%v", fs.Delete(ctx, "cas", "k") != nil, fs.Delete(ctx, "cas", "k") != nil))
	ex, _ = fs.Exists(ctx, "cas", "k")
	sym.Transcript(fmt.Sprintf("exists2=%v", ex))
	remote := &memRemote{data: map[string]string{}}
	rw := NewRemoteWrapper(fs, remote)
	sym.Transcript(fmt.Sprintf("rw set=%v remote=%q local=%s", rw.Set(ctx, "cas", "r1", strings.NewReader("remote-content")) != nil, remote.data["cas/r1"], get(fs, "cas", "r1")))
	remote.data["cas/only-remote"] = "from-remote"
	sym.Transcript(fmt.Sprintf("read-through=%s filled=%s", get(rw, "cas", "only-remote"), get(fs, "cas", "only-remote")))
	remote.failSet = true
	sym.Transcript(fmt.Sprintf("rw set with failing remote err=%v", rw.Set(ctx, "cas", "r2", strings.NewReader("x")) != nil))
	s3 := &S3Cache{prefix: "pre", workspacePrefix: "ws"}
	sym.Transcript("s3 " + s3.buildPath("/cas/", "/k/") + " " + s3.buildPath("taint", "//p:t"))
}
