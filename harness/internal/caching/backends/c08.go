//go:build verif

package backends

import (
	"context"
	"errors"
	"io"
	"strings"

	"grog/internal/config"
	"grog/internal/zzverif/sym"
)

func flag(name string) bool { return sym.Choice(name, 2) == 1 }

// memRemote models a remote object store: a map plus per-operation fault flags.
type memRemote struct {
	breakBodyAfter int // >=0: Get bodies break off after that many bytes
	data       map[string]string
	failGet    bool
	failSet    bool
	failExists bool
	setReads   bool // a failing Set has consumed its input before failing
	calls      []string
}

var errRemote = errors.New("remote unavailable")

// flakyBody delivers the first `good` bytes and then fails (a connection that breaks off)
type flakyBody struct {
	data string
	good int
	pos  int
}

func (f *flakyBody) Read(p []byte) (int, error) {
	if f.pos >= f.good {
		return 0, errors.New("connection reset by peer")
	}
	n := copy(p, f.data[f.pos:f.good])
	f.pos += n
	return n, nil
}
func (f *flakyBody) Close() error { return nil }

func (m *memRemote) TypeName() string { return "mem" }

func (m *memRemote) Get(ctx context.Context, path, key string) (io.ReadCloser, error) {
	m.calls = append(m.calls, "get "+path+"/"+key)
	if m.failGet {
		return nil, errRemote
	}
	c, ok := m.data[path+"/"+key]
	if !ok {
		return nil, errors.New("no such object")
	}
	if m.breakBodyAfter >= 0 && m.breakBodyAfter < len(c) {
		return &flakyBody{data: c, good: m.breakBodyAfter}, nil
	}
	return io.NopCloser(strings.NewReader(c)), nil
}

func (m *memRemote) Set(ctx context.Context, path, key string, content io.Reader) error {
	m.calls = append(m.calls, "set "+path+"/"+key)
	if m.failSet && !m.setReads {
		return errRemote
	}
	b, err := io.ReadAll(content)
	if err != nil {
		return err
	}
	if m.failSet {
		return errRemote
	}
	m.data[path+"/"+key] = string(b)
	return nil
}

func (m *memRemote) Delete(ctx context.Context, path, key string) error {
	delete(m.data, path+"/"+key)
	return nil
}

func (m *memRemote) Exists(ctx context.Context, path, key string) (bool, error) {
	m.calls = append(m.calls, "exists "+path+"/"+key)
	if m.failExists {
		return false, errRemote
	}
	_, ok := m.data[path+"/"+key]
	return ok, nil
}

func machine(name string, remote *memRemote) (*RemoteWrapper, context.Context) {
	ctx := context.Background()
	config.Global.Root = "/grogroot-" + name
	config.Global.WorkspaceRoot = "/w"
	fs, err := NewFileSystemCache(ctx)
	if err != nil {
		panic(err)
	}
	return NewRemoteWrapper(fs, remote), ctx
}

func readAllClose(r io.ReadCloser) string {
	b, err := io.ReadAll(r)
	if err != nil {
		panic(err)
	}
	_ = r.Close()
	return string(b)
}

// R2/R4: write-through on machine A, read-through on machine B, under remote faults
func VerifC08_R_mirror() {
	remote := &memRemote{data: map[string]string{}, breakBodyAfter: -1}
	content := sym.StringAlpha("content", 2, "ab")
	remote.failSet = flag("remote_put_fails")
	remote.setReads = flag("failing_put_consumes_body")
	a, ctx := machine("a", remote)
	err := a.Set(ctx, "cas", "k1", strings.NewReader(content))
	if remote.failSet {
		sym.Assert(err != nil, "C08.R4.set-reports-remote-failure")
		_, inRemote := remote.data["cas/k1"]
		sym.Assert(!inRemote, "C08.R4.failed-put-stores-nothing-remotely")
		sym.Reach("C08.R.put-failed")
		return
	}
	sym.Assert(err == nil, "C08.R4.set-succeeds-without-faults")
	got, ok := remote.data["cas/k1"]
	sym.Assert(ok && sym.StrEq(got, content), "C08.R1.successful-set-is-in-the-remote-store")
	lr, lerr := a.GetFS().Get(ctx, "cas", "k1")
	sym.Assert(lerr == nil, "C08.R4.successful-set-is-in-the-local-store")
	if lerr == nil {
		sym.Assert(sym.StrEq(readAllClose(lr), content), "C08.R4.local-copy-has-the-full-content")
	}
	// machine B: empty local cache, same remote namespace
	remote.failGet = flag("remote_get_fails")
	remote.failExists = flag("remote_head_fails")
	b, ctxB := machine("b", remote)
	r, gerr := b.Get(ctxB, "cas", "k1")
	if remote.failGet {
		sym.Assert(gerr != nil, "C08.R2.remote-error-is-a-miss-not-content")
	} else {
		sym.Assert(gerr == nil, "C08.R2.read-through-succeeds")
		if gerr == nil {
			sym.Assert(sym.StrEq(readAllClose(r), content), "C08.R2.read-through-returns-exactly-the-remote-bytes")
			lr, lerr := b.GetFS().Get(ctxB, "cas", "k1")
			sym.Assert(lerr == nil && sym.StrEq(readAllClose(lr), content), "C08.R2.read-through-fills-the-local-cache")
		}
	}
	_, merr := b.Get(ctxB, "cas", "missing")
	sym.Assert(merr != nil, "C08.R2.missing-object-is-a-miss")
	// asking again (a retry, or a second file with the same digest) is answered again - a failed or
	// missing download leaves nothing behind that a later request would wait for - and once the
	// remote is back the object is served
	_, merr2 := b.Get(ctxB, "cas", "missing")
	sym.Assert(merr2 != nil, "C08.R2.missing-object-is-a-miss-every-time")
	if remote.failGet {
		remote.failGet = false
		r2, gerr2 := b.Get(ctxB, "cas", "k1")
		sym.Assert(gerr2 == nil, "C08.R2.read-through-succeeds-once-the-remote-is-back")
		if gerr2 == nil {
			sym.Assert(sym.StrEq(readAllClose(r2), content), "C08.R2.read-through-returns-exactly-the-remote-bytes")
		}
	}
	ex, eerr := b.Exists(ctxB, "cas", "absent")
	if remote.failExists {
		sym.Assert(eerr != nil && !ex, "C08.R2.head-error-is-reported-not-a-hit")
	} else {
		sym.Assert(eerr == nil && !ex, "C08.R2.absent-object-does-not-exist")
	}
	sym.Reach("C08.R.mirror")
}

// R3: object names are injective in (path, key) within one namespace
func VerifC08_R_object_names() {
	s := &S3Cache{bucketName: "b", prefix: []string{"", "pre", "pre/fix"}[sym.Choice("prefix", 3)], workspacePrefix: "0123-w"}
	g := &GCSCache{bucketName: "b", prefix: s.prefix, workspacePrefix: "0123-w"}
	paths := []string{"cas", "target", "taint"}
	p1, p2 := paths[sym.Choice("p1", 3)], paths[sym.Choice("p2", 3)]
	k1 := sym.StringNAlpha("k1", 4, "a/:")
	k2 := sym.StringNAlpha("k2", 4, "a/:")
	clean := func(k string) bool {
		return sym.And(sym.Not(sym.StrEq(k, "")), sym.And(sym.Not(sym.HasSuffix(k, "/")),
			sym.Or(sym.Not(sym.HasPrefix(k, "/")), sym.HasPrefix(k, "//"))))
	}
	// keys are digests, or labels ("//pkg:name"): non-empty, no trailing slash, leading slashes only as "//"
	sym.Assume(clean(k1))
	sym.Assume(clean(k2))
	sym.Assume(sym.Not(sym.HasPrefix(k1, "///")))
	sym.Assume(sym.Not(sym.HasPrefix(k2, "///")))
	// a label key and a bare key are never used under the same path: both keys have the same form
	sym.Assume(sym.Iff(sym.HasPrefix(k1, "//"), sym.HasPrefix(k2, "//")))
	same := sym.And(p1 == p2, sym.StrEq(k1, k2))
	sym.Assert(sym.Iff(sym.StrEq(s.buildPath(p1, k1), s.buildPath(p2, k2)), same), "C08.R3.s3-object-names-injective")
	sym.Assert(sym.Iff(sym.StrEq(g.buildPath(p1, k1), g.buildPath(p2, k2)), same), "C08.R3.gcs-object-names-injective")
	sym.Assert(sym.HasPrefix(s.buildPath(p1, k1), s.fullPrefix()+"/"), "C08.R3.objects-live-under-the-workspace-prefix")
	sym.Reach("C08.R.names")
}

// R2b: a remote body that breaks off half way is an error (a miss), never truncated content -
// neither returned nor committed to the local cache under the key
func VerifC08_R_broken_body() {
	remote := &memRemote{data: map[string]string{"cas/k1": "0123456789"}, breakBodyAfter: sym.Choice("body_breaks_after", 10)}
	b, ctx := machine("b", remote)
	r, err := b.Get(ctx, "cas", "k1")
	returnedTruncated := false
	if err == nil {
		data, rerr := io.ReadAll(r)
		_ = r.Close()
		returnedTruncated = rerr == nil && string(data) != "0123456789"
	}
	sym.Assert(!returnedTruncated, "C08.R2.truncated-remote-body-is-never-returned-as-content")
	committedTruncated := false
	if lr, lerr := b.GetFS().Get(ctx, "cas", "k1"); lerr == nil {
		committedTruncated = readAllClose(lr) != "0123456789"
	}
	sym.Assert(!committedTruncated, "C08.R2.truncated-remote-body-is-never-committed-locally")
	sym.Reach("C08.R.broken-body")
}

// ---- S3 adapter: the real S3Cache over a model of the S3 client ---------------------------------

type memS3 struct {
	objects      map[string]string
	putFailures  int  // the next n PutObject calls fail (transient 5xx)
	failConsumes bool // a failing PutObject has read (part of) the body before it fails
	getFails     bool
}

func (m *memS3) GetObject(ctx context.Context, bucket, key string) (io.ReadCloser, error) {
	if m.getFails {
		return nil, errors.New("s3: 500 InternalError")
	}
	c, ok := m.objects[bucket+"|"+key]
	if !ok {
		return nil, errors.New("s3: NoSuchKey")
	}
	return io.NopCloser(strings.NewReader(c)), nil
}

func (m *memS3) PutObject(ctx context.Context, bucket, key string, body io.Reader) error {
	if m.putFailures > 0 {
		m.putFailures--
		if m.failConsumes {
			_, _ = io.ReadAll(body)
		}
		return errors.New("s3: 503 SlowDown")
	}
	b, err := io.ReadAll(body)
	if err != nil {
		return err
	}
	m.objects[bucket+"|"+key] = string(b)
	return nil
}

func (m *memS3) DeleteObject(ctx context.Context, bucket, key string) error {
	delete(m.objects, bucket+"|"+key)
	return nil
}

func (m *memS3) ObjectExists(ctx context.Context, bucket, key string) (bool, error) {
	_, ok := m.objects[bucket+"|"+key]
	return ok, nil
}

// R5: whatever the S3 client does (transient upload failures that may or may not have consumed
// the body), a Set that reports success has stored exactly the bytes it was given, a Set that
// reports failure has not stored other bytes under the key, and Get/Exists/Delete agree with it.
func VerifC08_R_s3_adapter() {
	ctx := context.Background()
	config.Global.WorkspaceRoot = "/w"
	cl := &memS3{objects: map[string]string{}}
	cl.putFailures = sym.Choice("transient_put_failures", 4)
	cl.failConsumes = flag("failing_put_consumes_body")
	s3c, err := NewS3CacheWithClient(ctx, config.S3CacheConfig{Bucket: "b", Prefix: "pre"}, cl)
	sym.Assert(err == nil, "C08.R5.s3-cache-constructed")
	if err != nil {
		return
	}
	content := sym.StringAlpha("content", 2, "ab")
	sym.Assume(content != "")
	serr := s3c.Set(ctx, "cas", "k1", strings.NewReader(content))
	stored, present := "", false
	for _, v := range cl.objects {
		stored, present = v, true
	}
	if serr == nil {
		sym.Assert(present && sym.StrEq(stored, content), "C08.R5.successful-set-stored-exactly-the-bytes")
		r, gerr := s3c.Get(ctx, "cas", "k1")
		sym.Assert(gerr == nil, "C08.R5.get-after-set")
		if gerr == nil {
			sym.Assert(sym.StrEq(readAllClose(r), content), "C08.R5.get-returns-the-bytes")
		}
		ex, eerr := s3c.Exists(ctx, "cas", "k1")
		sym.Assert(eerr == nil && ex, "C08.R5.exists-after-set")
		sym.Assert(s3c.Delete(ctx, "cas", "k1") == nil && len(cl.objects) == 0, "C08.R5.delete-removes-the-object")
		sym.Reach("C08.R.s3.stored")
	} else {
		sym.Assert(!present || sym.StrEq(stored, content), "C08.R5.failed-set-leaves-no-other-bytes-under-the-key")
		sym.Reach("C08.R.s3.failed")
	}
}
