//go:build verif

package caching

import (
	"context"

	"grog/internal/label"
	"grog/internal/zzverif/sym"
)

// C13 (taint plumbing): a taint marker belongs to exactly one label. Tainting L1 makes L2 tainted
// iff L1 == L2, and clearing L1's marker (which the executor does after re-running L1) leaves
// L2's marker alone. The backend is a map keyed by (path, key); what is decided is that the key
// the TaintCache derives from a label is injective on valid labels.
func VerifC13_T_taint_is_per_label() {
	ctx := context.Background()
	n := 3
	if sym.Tier() == "thorough" {
		n = 4
	}
	mk := func(tag string) (label.TargetLabel, string, string) {
		pkg := sym.StringNAlpha("pkg"+tag, n, "a/_")
		name := sym.StringNAlpha("name"+tag, n, "a_")
		// valid labels: clean package path (no empty components), non-empty name
		sym.Assume(name != "")
		sym.Assume(!sym.HasPrefix(pkg, "/") && !sym.HasSuffix(pkg, "/") && !sym.Contains(pkg, "//"))
		return label.TargetLabel{Package: pkg, Name: name}, pkg, name
	}
	l1, p1, n1 := mk("1")
	l2, p2, n2 := mk("2")
	same := sym.And(sym.StrEq(p1, p2), sym.StrEq(n1, n2))
	tc := NewTaintCache(&memRemote{data: map[string]string{}})
	sym.Assert(tc.Taint(ctx, l1) == nil, "C13.T1.taint-succeeds")
	t1, err1 := tc.IsTainted(ctx, l1)
	sym.Assert(err1 == nil && t1, "C13.T1.tainted-label-is-tainted")
	t2, err2 := tc.IsTainted(ctx, l2)
	sym.Assert(err2 == nil, "C13.T1.lookup-succeeds")
	sym.Assert(sym.Iff(t2, same), "C13.T1.taint-is-per-label")
	// both tainted, then L1 is rebuilt and its marker cleared
	sym.Assert(tc.Taint(ctx, l2) == nil, "C13.T1.taint-succeeds")
	sym.Assert(tc.Clear(ctx, l1) == nil, "C13.T2.clear-succeeds")
	t2b, _ := tc.IsTainted(ctx, l2)
	sym.Assert(sym.Iff(t2b, sym.Not(same)), "C13.T2.clearing-one-label-keeps-the-other-tainted")
	sym.Reach("C13.T.labels")
}
