//go:build verif

package worker

import (
	"context"
	"errors"

	tea "github.com/charmbracelet/bubbletea"

	"grog/internal/console"
	"grog/internal/zzverif/sym"
)

// P-max / P-closed: the pool never runs more than maxWorkers task functions at once, every
// submitted task runs exactly once and gets its own result, and Run after Shutdown is an error.
func VerifC03_P_pool() {
	maxWorkers := 1 + sym.Choice("max_workers_minus_1", 2)
	nTasks := 4
	ctx, cancel := context.WithCancel(context.Background())
	defer cancel()
	pool := NewTaskWorkerPool[int](console.GetLogger(ctx), maxWorkers, func(tea.Msg) {}, nTasks)
	pool.StartWorkers(ctx)
	running, maxRunning := 0, 0
	ran := make([]int, nTasks)
	results := make([]int, nTasks)
	errs := make([]error, nTasks)
	done := make(chan int, nTasks)
	for i := 0; i < nTasks; i++ {
		i := i
		go func() {
			results[i], errs[i] = pool.Run(func(update StatusFunc) (int, error) {
				running++
				if running > maxRunning {
					maxRunning = running
				}
				ran[i]++
				update(Status("working"))
				sym.Yield()
				running--
				return 100 + i, nil
			})
			done <- i
		}()
	}
	for i := 0; i < nTasks; i++ {
		<-done
	}
	sym.Assert(maxRunning <= maxWorkers, "C03.P-max.at-most-num-workers-tasks-run-at-once")
	for i := 0; i < nTasks; i++ {
		sym.Assert(ran[i] == 1, "C03.P-once.every-task-runs-exactly-once")
		sym.Assert(errs[i] == nil && results[i] == 100+i, "C03.P-result.each-caller-gets-its-own-result")
	}
	pool.Shutdown()
	_, err := pool.Run(func(StatusFunc) (int, error) { return 0, nil })
	sym.Assert(err != nil, "C03.P-closed.run-after-shutdown-is-an-error")
	sym.Reach("C03.P.pool")
}

// C05 at the pool: a failing task's error reaches exactly the caller that submitted it; the other
// callers (queued behind it on the same worker, or running beside it) get their own success.
func VerifC05_P_pool_failure_delivery() {
	maxWorkers := 1 + sym.Choice("max_workers_minus_1", 2)
	nTasks := 3
	failing := sym.Choice("failing_task", nTasks)
	ctx, cancel := context.WithCancel(context.Background())
	defer cancel()
	pool := NewTaskWorkerPool[int](console.GetLogger(ctx), maxWorkers, func(tea.Msg) {}, nTasks)
	pool.StartWorkers(ctx)
	results := make([]int, nTasks)
	errs := make([]error, nTasks)
	done := make(chan int, nTasks)
	boom := errors.New("target failed")
	for i := 0; i < nTasks; i++ {
		i := i
		go func() {
			results[i], errs[i] = pool.Run(func(update StatusFunc) (int, error) {
				sym.Yield()
				if i == failing {
					return 0, boom
				}
				return 100 + i, nil
			})
			done <- i
		}()
	}
	for i := 0; i < nTasks; i++ {
		<-done
	}
	for i := 0; i < nTasks; i++ {
		if i == failing {
			sym.Assert(errs[i] == boom, "C05.P.failure-reaches-the-caller-that-submitted-it")
		} else {
			sym.Assert(errs[i] == nil && results[i] == 100+i, "C05.P.other-callers-unaffected-by-the-failure")
		}
	}
	sym.Reach("C05.P.pool")
}

// P-cancel: the build is interrupted (context cancelled, pool shut down by its watcher) while
// tasks are running and further ones are queued or still being submitted. A caller may be left
// waiting or get an error, but a caller that gets a nil error has received the result of its own
// task, which really ran: work that never ran is never reported as done.
func VerifC03_P_pool_interrupted() {
	maxWorkers := 1 + sym.Choice("max_workers_minus_1", 2)
	nTasks := 4
	ctx, cancel := context.WithCancel(context.Background())
	defer cancel()
	pool := NewTaskWorkerPool[int](console.GetLogger(ctx), maxWorkers, func(tea.Msg) {}, nTasks)
	pool.StartWorkers(ctx)
	gate := make(chan struct{}) // the commands are slow: they finish only after the interrupt
	ran := make([]int, nTasks)
	returned := make([]bool, nTasks)
	results := make([]int, nTasks)
	errs := make([]error, nTasks)
	for i := 0; i < nTasks; i++ {
		i := i
		go func() {
			results[i], errs[i] = pool.Run(func(update StatusFunc) (int, error) {
				<-gate
				ran[i]++
				return 100 + i, nil
			})
			returned[i] = true
		}()
	}
	sym.Quiesce() // workers hold the first tasks, the next ones sit in the queue or in enqueue
	cancel()      // the interrupt
	sym.Quiesce() // the watcher shuts the pool down
	close(gate)
	sym.Quiesce()
	for i := 0; i < nTasks; i++ {
		if !returned[i] {
			sym.Reach("C03.P.pool-interrupted.a-caller-is-left-waiting")
		}
		if returned[i] && errs[i] != nil {
			sym.Reach("C03.P.pool-interrupted.a-caller-got-an-error")
		}
		if returned[i] && errs[i] == nil {
			sym.Assert(ran[i] == 1 && results[i] == 100+i, "C03.P-cancel.success-only-for-work-that-ran")
		}
		sym.Assert(ran[i] <= 1, "C03.P-once.every-task-runs-at-most-once")
	}
	sym.Reach("C03.P.pool-interrupted")
}
