//go:build verif

package cmds

import (
	"context"

	"grog/internal/caching"
	"grog/internal/caching/backends"
	"grog/internal/config"
	"grog/internal/label"
	"grog/internal/model"
	"grog/internal/zzverif/sym"
)

// C13 at the command level: `grog taint <pattern>` marks exactly the targets the pattern matches -
// test targets included, aliases and non-matching targets not - in the cache the next build reads.
func VerifC13_C_taint_command() {
	setup()
	config.Global.Root = "/grogroot"
	config.Global.Cache = config.CacheConfig{}
	q := symGraph(3)
	pat := sym.Choice("pattern", 4)
	arg := []string{"//p:all", "//...", "//q/...", "//p:n1_test"}[pat]
	match := func(n *qnode) bool {
		switch pat {
		case 0:
			return n.pkg == "p"
		case 1:
			return true
		case 2:
			return n.pkg == "q"
		default:
			return n.label == label.TL("p", "n1_test")
		}
	}
	_, fatal := runCmd("TaintCmd", arg)
	sym.Assert(!fatal, "C13.C1.taint-command-runs")
	ctx := context.Background()
	be, err := backends.NewFileSystemCache(ctx)
	if err != nil {
		panic(err)
	}
	tc := caching.NewTaintCache(be)
	for _, n := range q.nodes {
		tainted, terr := tc.IsTainted(ctx, n.label)
		sym.Assert(terr == nil, "C13.C1.taint-lookup")
		_, isTarget := n.node.(*model.Target)
		sym.Assert(tainted == (isTarget && match(n)), "C13.C1.taint-command-marks-exactly-the-matching-targets")
	}
	sym.Reach("C13.C.taint")
}
