//go:build verif

package cmds

import (
	"fmt"
	"os"
	"path/filepath"
	"sort"

	"grog/internal/config"
	"grog/internal/dag"
	"grog/internal/label"
	"grog/internal/model"
	"grog/internal/zzverif/sym"
)

// C20 at the command level: the Run closures of `grog deps`, `rdeps`, `owners` and `list` are
// executed (cobra itself is not: sym.CobraRun takes the closure from the package initialiser),
// the graph loader is environment (verifLoadGraph hands over the harness's graph), standard
// output is captured and compared line by line with an independent reading of the graph.

var verifGraph *dag.DirectedTargetGraph

func verifLoadGraph() *dag.DirectedTargetGraph { return verifGraph }

func flag(name string) bool { return sym.Choice(name, 2) == 1 }

func runCmd(name string, args ...string) (lines []string, fatal bool) {
	sym.CaptureStdout(true)
	func() {
		defer func() {
			if r := recover(); r != nil {
				fatal = true
			}
		}()
		sym.CobraRun(name, args)
	}()
	sym.CaptureStdout(false)
	return sym.TakeStdout(), fatal
}

type qnode struct {
	kind  int // 0 target, 1 test target, 2 alias
	pkg   string
	label label.TargetLabel
	node  model.BuildNode
}

type qgraph struct {
	nodes []*qnode
	adj   [][]bool // adj[i][j]: j depends on i
}

// arbitrary DAG on k nodes (edges only from lower to higher index), node kinds and packages vary;
// an alias has exactly one dependency (what it points to)
func symGraph(k int) *qgraph {
	q := &qgraph{adj: make([][]bool, k)}
	for i := range q.adj {
		q.adj[i] = make([]bool, k)
	}
	var bn []model.BuildNode
	for i := 0; i < k; i++ {
		n := &qnode{pkg: []string{"p", "q"}[sym.Choice(fmt.Sprintf("pkg_%d", i), 2)]}
		kinds := 3
		if i == 0 {
			kinds = 2
		}
		n.kind = sym.Choice(fmt.Sprintf("kind_%d", i), kinds)
		switch n.kind {
		case 0:
			n.label = label.TL(n.pkg, fmt.Sprintf("n%d", i))
			n.node = &model.Target{Label: n.label}
		case 1:
			n.label = label.TL(n.pkg, fmt.Sprintf("n%d_test", i))
			n.node = &model.Target{Label: n.label}
		case 2:
			n.label = label.TL(n.pkg, fmt.Sprintf("a%d", i))
			actual := sym.Choice(fmt.Sprintf("actual_%d", i), i)
			q.adj[actual][i] = true
			n.node = &model.Alias{Label: n.label, Actual: q.nodes[actual].label}
		}
		q.nodes = append(q.nodes, n)
		bn = append(bn, n.node)
	}
	for j := 0; j < k; j++ {
		if q.nodes[j].kind == 2 {
			continue
		}
		for i := 0; i < j; i++ {
			if flag(fmt.Sprintf("e_%d_%d", i, j)) {
				q.adj[i][j] = true
			}
		}
	}
	g := dag.NewDirectedGraphFromTargets(bn...)
	for i := 0; i < k; i++ {
		for j := 0; j < k; j++ {
			if q.adj[i][j] {
				if err := g.AddEdge(q.nodes[i].node, q.nodes[j].node); err != nil {
					panic(err)
				}
			}
		}
	}
	verifGraph = g
	return q
}

func (q *qgraph) closure() [][]bool {
	k := len(q.nodes)
	c := make([][]bool, k)
	for i := range c {
		c[i] = append([]bool{}, q.adj[i]...)
	}
	for m := 0; m < k; m++ {
		for i := 0; i < k; i++ {
			for j := 0; j < k; j++ {
				if c[i][m] && c[m][j] {
					c[i][j] = true
				}
			}
		}
	}
	return c
}

func typeOK(n *qnode, targetType string) (decided, ok bool) {
	switch targetType {
	case "all":
		return true, true
	case "test":
		return n.kind != 2, n.kind == 1
	default: // no_test
		return n.kind != 2, n.kind == 0
	}
}

// compares the printed lines with the expected labels: sorted, each once; under a type filter
// aliases may or may not be listed (the filter speaks about targets)
func checkListing(lines []string, q *qgraph, in func(i int) bool, targetType, id string) {
	printed := map[string]int{}
	for _, l := range lines {
		printed[l]++
	}
	sym.Assert(sort.StringsAreSorted(lines), id+".sorted")
	known := map[string]bool{}
	for i, n := range q.nodes {
		s := n.label.String()
		known[s] = true
		sym.Assert(printed[s] <= 1, id+".each-label-once")
		decided, ok := typeOK(n, targetType)
		if !in(i) {
			sym.Assert(printed[s] == 0, id+".nothing-outside-the-set")
		} else if decided {
			sym.Assert((printed[s] == 1) == ok, id+".exactly-the-set")
		}
	}
	for l := range printed {
		sym.Assert(known[l], id+".only-labels-of-the-graph")
	}
}

func setup() {
	config.Global.WorkspaceRoot = "/w"
	config.Global.Tags, config.Global.ExcludeTags = nil, nil
	config.Global.OS, config.Global.Arch, config.Global.AllPlatforms = "linux", "amd64", false
}

// deps / rdeps: exactly the direct or transitive dependency (dependant) set, each label once
func VerifC20_C_deps_rdeps() {
	setup()
	k := 3
	if sym.Tier() == "thorough" {
		k = 4
	}
	q := symGraph(k)
	c := q.closure()
	x := sym.Choice("query_node", k)
	transitive := flag("transitive")
	tt := []string{"all", "test", "no_test"}[sym.Choice("target_type", 3)]
	depsOptions.transitive, depsOptions.targetType = transitive, tt
	rDepsOptions.transitive, rDepsOptions.targetType = transitive, tt
	rel := c
	if !transitive {
		rel = q.adj
	}
	lines, fatal := runCmd("DepsCmd", q.nodes[x].label.String())
	sym.Assert(!fatal, "C20.C1.deps-runs")
	checkListing(lines, q, func(i int) bool { return rel[i][x] }, tt, "C20.C1.deps")
	lines, fatal = runCmd("RDepsCmd", q.nodes[x].label.String())
	sym.Assert(!fatal, "C20.C2.rdeps-runs")
	checkListing(lines, q, func(j int) bool { return rel[x][j] }, tt, "C20.C2.rdeps")
	sym.Reach("C20.C.deps")
}

// owners f: exactly the targets whose resolved inputs contain f, for every spelling of the input
func VerifC20_C_owners() {
	setup()
	spellings := []string{"a.txt", "./a.txt", "sub/../a.txt", "sub/a.txt", "../p/a.txt", "b.txt", "a.txt.tmpl", "A.txt"}
	files := []string{"p/a.txt", "p/sub/a.txt", "q/a.txt", "p/b.txt"}
	k := 2
	q := &qgraph{}
	var bn []model.BuildNode
	for i := 0; i < k; i++ {
		pkg := []string{"p", "q", ""}[sym.Choice(fmt.Sprintf("pkg_%d", i), 3)]
		t := &model.Target{Label: label.TL(pkg, fmt.Sprintf("n%d", i))}
		nIn := 1 // the second target has one input, the first up to two
		if i == 0 {
			nIn = sym.Choice("n_inputs_0", 3)
		}
		for j := 0; j < nIn; j++ {
			t.Inputs = append(t.Inputs, spellings[sym.Choice(fmt.Sprintf("input_%d_%d", i, j), len(spellings))])
		}
		q.nodes = append(q.nodes, &qnode{pkg: pkg, label: t.Label, node: t})
		bn = append(bn, t)
	}
	verifGraph = dag.NewDirectedGraphFromTargets(bn...)
	f := files[sym.Choice("file", len(files))]
	owns := func(i int) bool {
		t := q.nodes[i].node.(*model.Target)
		for _, in := range t.Inputs {
			if filepath.Clean(filepath.Join(t.Label.Package, in)) == f {
				return true
			}
		}
		return false
	}
	// the file is named absolutely, or relative to the directory the command runs in
	arg := "/w/" + f
	switch sym.Choice("argument_form", 3) {
	case 1:
		_ = os.Chdir("/w")
		arg = f
	case 2:
		_ = os.Chdir("/w/p")
		arg = "../" + f
	}
	lines, fatal := runCmd("OwnersCmd", arg)
	_ = os.Chdir("/w")
	sym.Assert(!fatal, "C20.C3.owners-runs")
	checkListing(lines, q, owns, "all", "C20.C3.owners")
	sym.Reach("C20.C.owners")
}

// list: exactly the pattern and target-type matches
func VerifC20_C_list() {
	setup()
	q := symGraph(3)
	tt := []string{"all", "test", "no_test"}[sym.Choice("target_type", 3)]
	listOptions.targetType = tt
	pat := sym.Choice("pattern", 5)
	arg := []string{"//p:all", "//...", "//q/...", "//p:n1", "//p:a1"}[pat]
	match := func(i int) bool {
		n := q.nodes[i]
		switch pat {
		case 0:
			return n.pkg == "p"
		case 1:
			return true
		case 2:
			return n.pkg == "q"
		case 3:
			return n.label == label.TL("p", "n1")
		default:
			return n.label == label.TL("p", "a1")
		}
	}
	lines, fatal := runCmd("ListCmd", arg)
	sym.Assert(!fatal, "C20.C4.list-runs")
	checkListing(lines, q, match, tt, "C20.C4.list")
	sym.Reach("C20.C.list")
}
