//go:build verif

package selection

import (
	"fmt"
	"sort"
	"strings"

	"grog/internal/config"
	"grog/internal/dag"
	"grog/internal/label"
	"grog/internal/model"
	"grog/internal/zzverif/sym"
)

func VerifXval_selection() {
	config.Global.OS, config.Global.Arch, config.Global.AllPlatforms = "linux", "amd64", false
	mk := func() (*dag.DirectedTargetGraph, []model.BuildNode) {
		lib := &model.Target{Label: label.TL("lib", "lib"), Tags: []string{"core"}}
		gen := &model.Target{Label: label.TL("lib/gen", "gen"), Platforms: []string{"linux/amd64"}}
		al := &model.Alias{Label: label.TL("lib", "alias"), Actual: gen.Label}
		app := &model.Target{Label: label.TL("app", "app"), Tags: []string{"deploy"}}
		tst := &model.Target{Label: label.TL("app", "app_test"), Command: "t"}
		mac := &model.Target{Label: label.TL("tools", "mac"), Platforms: []string{"darwin/arm64"}}
		nodes := []model.BuildNode{lib, gen, al, app, tst, mac}
		g := dag.NewDirectedGraphFromTargets(nodes...)
		_ = g.AddEdge(gen, al)
		_ = g.AddEdge(al, app)
		_ = g.AddEdge(lib, app)
		_ = g.AddEdge(app, tst)
		return g, nodes
	}
	sel := func(nodes []model.BuildNode) string {
		var out []string
		for _, n := range nodes {
			if n.GetIsSelected() {
				out = append(out, n.GetLabel().String())
			}
		}
		sort.Strings(out)
		return strings.Join(out, " ")
	}
	cases := []struct {
		pats         []string
		tags, extags []string
		typ          TargetTypeSelection
	}{
		{[]string{"//app:all"}, nil, nil, NonTestOnly}, {[]string{"//app:all"}, nil, nil, TestOnly}, {[]string{"//..."}, []string{"core"}, nil, AllTargets},
		{[]string{"//..."}, nil, []string{"deploy"}, NonTestOnly}, {[]string{"//lib/..."}, nil, nil, AllTargets}, {[]string{"//tools:mac"}, nil, nil, AllTargets},
		{[]string{"//lib:alias", "//app:app_test"}, nil, nil, AllTargets}, {nil, nil, nil, AllTargets},
	}
	for i, c := range cases {
		g, nodes := mk()
		pats, err := label.ParsePatternsOrMatchAll("", c.pats)
		if err != nil {
			sym.Transcript("pattern error")
			continue
		}
		n, skipped, serr := New(pats, c.tags, c.extags, c.typ).SelectTargetsForBuild(g)
		sym.Transcript(fmt.Sprintf("build %d n=%d skipped=%d err=%v sel=%s", i, n, skipped, serr != nil, sel(nodes)))
		g2, nodes2 := mk()
		New(pats, c.tags, c.extags, c.typ).SelectTargets(g2)
		sym.Transcript(fmt.Sprintf("query %d sel=%s", i, sel(nodes2)))
	}
}
