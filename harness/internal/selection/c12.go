//go:build verif

package selection

import (
	"fmt"

	"grog/internal/config"
	"grog/internal/dag"
	"grog/internal/label"
	"grog/internal/model"
	"grog/internal/zzverif/sym"
)

func tier(q, t int) int {
	if sym.Tier() == "thorough" {
		return t
	}
	return q
}

// flag is a concrete two-way choice (explored by forking, no solver query needed)
func flag(name string) bool { return sym.Choice(name, 2) == 1 }

func mustPattern(cur, text string) label.TargetPattern {
	p, err := label.ParseTargetPattern(cur, text)
	if err != nil {
		panic(err)
	}
	return p
}

func closure(adj [][]bool) [][]bool {
	k := len(adj)
	c := make([][]bool, k)
	for i := range c {
		c[i] = append([]bool{}, adj[i]...)
	}
	for m := 0; m < k; m++ {
		for i := 0; i < k; i++ {
			for j := 0; j < k; j++ {
				if c[i][m] && c[m][j] {
					c[i][j] = true
				}
			}
		}
	}
	return c
}

// S1: selected set = matched roots + their transitive dependencies (through aliases), nothing else.
func VerifC12_S_closure() {
	config.Global.OS, config.Global.Arch, config.Global.AllPlatforms = "linux", "amd64", false
	k := tier(4, 5)
	nodes := make([]model.BuildNode, k)
	matched := make([]bool, k)
	isAlias := make([]bool, k)
	// labels are (package, name) pairs: either distinct names in one package, or one name ("lib") in k sub-packages
	sameNames := flag("targets_share_one_name")
	for i := 0; i < k; i++ {
		l := label.TL("p", fmt.Sprintf("n%d", i))
		if sameNames {
			l = label.TL(fmt.Sprintf("p/s%d", i), "lib")
		}
		m := flag(fmt.Sprintf("match_%d", i))
		if i > 0 && i < k-1 && flag(fmt.Sprintf("alias_%d", i)) {
			// an alias is matched through the pattern only (it has no tags): put unmatched ones in package q
			isAlias[i] = true
			if m {
				matched[i] = true
			} else {
				l.Package = "q" + l.Package[1:]
			}
			nodes[i] = &model.Alias{Label: l}
		} else {
			tag := "u"
			if m {
				tag = "t"
				matched[i] = true
			}
			nodes[i] = &model.Target{Label: l, Tags: []string{tag}}
		}
	}
	g := dag.NewDirectedGraphFromTargets(nodes...)
	adj := make([][]bool, k)
	for i := range adj {
		adj[i] = make([]bool, k)
	}
	// edge i->j means j depends on i (i is a dependency of j)
	for i := 0; i < k; i++ {
		for j := i + 1; j < k; j++ {
			if flag(fmt.Sprintf("e_%d_%d", i, j)) {
				adj[i][j] = true
				if err := g.AddEdge(nodes[i], nodes[j]); err != nil {
					sym.Failf("C12.addedge")
				}
			}
		}
	}
	sel := New([]label.TargetPattern{mustPattern("", "//p/...")}, []string{"t"}, nil, AllTargets)
	count, skipped, err := sel.SelectTargetsForBuild(g)
	sym.Assert(err == nil && skipped == 0, "C12.S1.no-error-without-platforms")
	c := closure(adj)
	want := make([]bool, k)
	nTargets := 0
	for j := 0; j < k; j++ {
		if matched[j] {
			want[j] = true
			for i := 0; i < k; i++ {
				if c[i][j] {
					want[i] = true
				}
			}
		}
	}
	for i := 0; i < k; i++ {
		sym.Assert(nodes[i].GetIsSelected() == want[i], "C12.S1.selected-equals-closure-of-matches")
		if want[i] && !isAlias[i] {
			nTargets++
		}
	}
	sym.Assert(count == nTargets, "C12.S3.count-is-selected-targets")
	sym.Reach("C12.S.closure")
}

type profile struct {
	pkg      string
	test     bool
	tag      string
	platform int // 0 none 1 host 2 other
	alias    bool
}

func cleanPkg(p string) bool {
	return sym.And(sym.Not(sym.HasPrefix(p, "/")),
		sym.And(sym.Not(sym.HasSuffix(p, "/")), sym.Not(sym.Contains(p, "//"))))
}

func symProfile(i int) profile {
	p := profile{}
	// the package is a symbolic string: the solver decides the pattern boundary cases (a, a/b, ab, ...)
	p.pkg = sym.StringAlpha(fmt.Sprintf("pkg_%d", i), 3, "ab/")
	sym.Assume(cleanPkg(p.pkg))
	p.alias = flag(fmt.Sprintf("alias_%d", i))
	if !p.alias {
		p.test = flag(fmt.Sprintf("test_%d", i))
		p.tag = []string{"", "t1", "t2"}[sym.Choice(fmt.Sprintf("tag_%d", i), 3)]
		p.platform = sym.Choice(fmt.Sprintf("plat_%d", i), 3)
	}
	return p
}

func (p profile) node(i int) model.BuildNode {
	name := fmt.Sprintf("n%d", i)
	if p.test {
		name += "_test"
	}
	l := label.TL(p.pkg, name)
	if p.alias {
		return &model.Alias{Label: l}
	}
	t := &model.Target{Label: l}
	if p.tag != "" {
		t.Tags = []string{p.tag}
	}
	switch p.platform {
	case 1:
		t.Platforms = []string{"linux/amd64"}
	case 2:
		t.Platforms = []string{"darwin/arm64", "windows/amd64"}
	}
	return t
}

type selCfg struct {
	pat2    int // second pattern: 0 none, else index+1 into patTexts
	pat     int
	typ     TargetTypeSelection
	tag     string
	exclude string
	allPlat bool
}

var patTexts = []string{"//a/...", "//a:all", "//...", "//a/b:all"}

func patOracle(pat int, pkg string) bool {
	switch pat {
	case 0:
		return sym.Or(sym.StrEq(pkg, "a"), sym.HasPrefix(pkg, "a/"))
	case 1:
		return sym.StrEq(pkg, "a")
	case 2:
		return true
	}
	return sym.StrEq(pkg, "a/b")
}

func (c selCfg) patMatches(pkg string) bool {
	m := patOracle(c.pat, pkg)
	if c.pat2 > 0 {
		m = sym.Or(m, patOracle(c.pat2-1, pkg))
	}
	return m
}

func symSel() (selCfg, *Selector) {
	c := selCfg{}
	c.pat = sym.Choice("pat", len(patTexts))
	c.pat2 = []int{0, 2, 4}[sym.Choice("second_pattern", 3)] // none, //a:all, //a/b:all
	c.typ = []TargetTypeSelection{AllTargets, TestOnly, NonTestOnly}[sym.Choice("type", 3)]
	c.tag = []string{"", "t1"}[sym.Choice("seltag", 2)]
	c.exclude = []string{"", "t2"}[sym.Choice("selexclude", 2)]
	c.allPlat = flag("allplatforms")
	var tags, ex []string
	if c.tag != "" {
		tags = []string{c.tag}
	}
	if c.exclude != "" {
		ex = []string{c.exclude}
	}
	config.Global.OS, config.Global.Arch, config.Global.AllPlatforms = "linux", "amd64", c.allPlat
	pats := []label.TargetPattern{mustPattern("", patTexts[c.pat])}
	if c.pat2 > 0 {
		pats = append(pats, mustPattern("", patTexts[c.pat2-1]))
	}
	return c, New(pats, tags, ex, c.typ)
}

func (c selCfg) matchesFilters(p profile) bool {
	if p.alias {
		return c.patMatches(p.pkg)
	}
	typeOK := c.typ == AllTargets || (c.typ == TestOnly && p.test) || (c.typ == NonTestOnly && !p.test)
	tagOK := c.tag == "" || p.tag == c.tag
	exOK := c.exclude == "" || p.tag != c.exclude
	return sym.And(typeOK && tagOK && exOK, c.patMatches(p.pkg))
}

func (c selCfg) platformOK(p profile) bool {
	return p.alias || c.allPlat || p.platform != 2
}

// S2: filters and platform rule on a dependency pair (dep -> top), every attribute combination.
func VerifC12_S_filters() {
	cfg, sel := symSel()
	// the dependency lives in a package matched only by //..., so that its own filters rarely matter;
	// its kind, tag and platform vary
	pd := profile{pkg: "zz", alias: flag("alias_0")}
	if !pd.alias {
		pd.platform = sym.Choice("plat_0", 3)
		pd.tag = []string{"", "t2"}[sym.Choice("tag_0", 2)]
	}
	pt := symProfile(1)
	dep, top := pd.node(0), pt.node(1)
	g := dag.NewDirectedGraphFromTargets(dep, top)
	edge := flag("edge")
	if edge {
		_ = g.AddEdge(dep, top)
	}
	count, skipped, err := sel.SelectTargetsForBuild(g)
	topRoot := sym.And(cfg.matchesFilters(pt), cfg.platformOK(pt))
	depRoot := sym.And(cfg.matchesFilters(pd), cfg.platformOK(pd))
	wantErr := sym.And(topRoot, edge && !cfg.platformOK(pd))
	sym.Assert(sym.Iff(err != nil, wantErr), "C12.S2.error-iff-selected-target-has-incompatible-dependency")
	if err != nil {
		sym.Reach("C12.S.filters.error")
		return
	}
	wantTop := topRoot
	wantDep := sym.Or(depRoot, sym.And(topRoot, edge))
	sym.Assert(sym.Iff(top.GetIsSelected(), wantTop), "C12.S2.top-selected-iff-matches-all-filters")
	sym.Assert(sym.Iff(dep.GetIsSelected(), wantDep), "C12.S2.dependency-selected-iff-root-or-needed")
	n := sym.IteInt(sym.And(wantTop, !pt.alias), 1, 0) + sym.IteInt(sym.And(wantDep, !pd.alias), 1, 0)
	sym.Assert(count == n, "C12.S3.count-is-selected-targets")
	ns := sym.IteInt(sym.And(cfg.matchesFilters(pt), !cfg.platformOK(pt)), 1, 0) +
		sym.IteInt(sym.And(cfg.matchesFilters(pd), !cfg.platformOK(pd)), 1, 0)
	sym.Assert(skipped == ns, "C12.S3.platform-skipped-count")
	sym.Reach("C12.S.filters")
}

// Q4: list/query selection = pattern and filters, no closure.
func VerifC20_Q_filter() {
	cfg, sel := symSel()
	pt := symProfile(1)
	pd := profile{pkg: "a", platform: 0}
	dep, top := pd.node(0), pt.node(1)
	g := dag.NewDirectedGraphFromTargets(dep, top)
	_ = g.AddEdge(dep, top)
	sel.SelectTargets(g)
	want := sym.And(cfg.matchesFilters(pt), cfg.platformOK(pt))
	wantDep := cfg.matchesFilters(pd)
	sym.Assert(sym.Iff(top.GetIsSelected(), want), "C20.Q4.select-targets-is-filter-only")
	sym.Assert(sym.Iff(dep.GetIsSelected(), wantDep), "C20.Q4.select-targets-no-closure")
	out := sel.FilterNodes([]model.BuildNode{dep, top})
	n := 0
	for _, x := range out {
		if x == top {
			n++
		}
	}
	sym.Assert(sym.Iff(n == 1, want), "C20.Q4.filter-nodes-is-filter-only")
	sym.Assert(n <= 1, "C20.Q4.filter-nodes-no-duplicates")
	sym.Reach("C20.Q.filter")
}

// S2b: platform errors along longer chains / diamonds (3 targets)
func VerifC12_S_platform_chain() {
	config.Global.OS, config.Global.Arch = "linux", "amd64"
	config.Global.AllPlatforms = flag("allplatforms")
	k := 3
	nodes := make([]model.BuildNode, k)
	bad := make([]bool, k)
	for i := 0; i < k; i++ {
		t := &model.Target{Label: label.TL("a", fmt.Sprintf("n%d", i))}
		if flag(fmt.Sprintf("other_%d", i)) {
			t.Platforms = []string{"darwin/arm64"}
			bad[i] = !config.Global.AllPlatforms
		}
		nodes[i] = t
	}
	g := dag.NewDirectedGraphFromTargets(nodes...)
	adj := [][]bool{make([]bool, k), make([]bool, k), make([]bool, k)}
	for i := 0; i < k; i++ {
		for j := i + 1; j < k; j++ {
			if flag(fmt.Sprintf("e_%d_%d", i, j)) {
				adj[i][j] = true
				_ = g.AddEdge(nodes[i], nodes[j])
			}
		}
	}
	sel := New([]label.TargetPattern{mustPattern("", "//a:all")}, nil, nil, AllTargets)
	_, _, err := sel.SelectTargetsForBuild(g)
	c := closure(adj)
	wantErr := false
	for j := 0; j < k; j++ {
		if bad[j] {
			continue
		}
		for i := 0; i < k; i++ {
			if c[i][j] && bad[i] {
				wantErr = true
			}
		}
	}
	sym.Assert((err != nil) == wantErr, "C12.S2.error-iff-compatible-root-has-incompatible-ancestor")
	if err == nil {
		for i := 0; i < k; i++ {
			sym.Assert(nodes[i].GetIsSelected() == !bad[i], "C12.S2.platform-incompatible-roots-skipped")
		}
	}
	sym.Reach("C12.S.platform")
}

// C19: selecting the dependency closure must not enumerate paths (ladder graphs)
func VerifC19_T_select_ladder() {
	config.Global.OS, config.Global.Arch, config.Global.AllPlatforms = "linux", "amd64", false
	depth := 4 + sym.Choice("depth", tier(9, 11))
	var nodes []model.BuildNode
	for i := 0; i < 2*depth; i++ {
		nodes = append(nodes, &model.Target{Label: label.TL("a", fmt.Sprintf("l%02d", i))})
	}
	g := dag.NewDirectedGraphFromTargets(nodes...)
	for d := 0; d+1 < depth; d++ {
		for a := 0; a < 2; a++ {
			for b := 0; b < 2; b++ {
				_ = g.AddEdge(nodes[2*d+a], nodes[2*(d+1)+b])
			}
		}
	}
	v, e := 2*depth, 4*(depth-1)
	bound := (v + e) * (v + e)
	last := nodes[v-1].GetLabel()
	sel := New([]label.TargetPattern{label.TargetPatternFromLabel(last)}, nil, nil, AllTargets)
	s0 := sym.Steps()
	count, _, err := sel.SelectTargetsForBuild(g)
	s1 := sym.Steps()
	sym.NoteInt("steps-select", s1-s0)
	sym.Assert(err == nil && count == v-1, "C19.T3.select-ladder-result")
	sym.Assert(s1-s0 <= 10*bound, "C19.T3.select-work-polynomial")
	sym.Reach("C19.T.select-ladder")
}

// S4: the platform rule itself, on arbitrary platform strings: a target restricted to a list of
// platforms is compatible iff one entry IS the host platform (not a prefix, suffix or
// case-variant of it); unrestricted targets, aliases and --all-platforms always are.
func VerifC12_S_platform_rule() {
	n := 3
	if sym.Tier() == "thorough" {
		n = 4
	}
	hostOS := sym.StringAlpha("host_os", n, "ab")
	hostArch := sym.StringAlpha("host_arch", n, "ab6")
	config.Global.OS, config.Global.Arch = hostOS, hostArch
	config.Global.AllPlatforms = flag("allplatforms")
	host := hostOS + "/" + hostArch
	t := &model.Target{Label: label.TL("p", "t")}
	k := sym.Choice("n_platforms", 3)
	var any bool
	for i := 0; i < k; i++ {
		p := sym.StringAlpha(fmt.Sprintf("platform_%d", i), 2*n+1, "ab6/")
		t.Platforms = append(t.Platforms, p)
		any = sym.Or(any, sym.StrEq(p, host))
	}
	want := sym.Or(config.Global.AllPlatforms || k == 0, any)
	sym.Assert(sym.Iff(nodeMatchesPlatform(t), want), "C12.S4.platform-compatible-iff-listed-exactly")
	sym.Assert(nodeMatchesPlatform(&model.Alias{Label: label.TL("p", "a"), Actual: t.Label}), "C12.S4.aliases-have-no-platform")
	sym.Reach("C12.S.platform-rule")
	config.Global.OS, config.Global.Arch, config.Global.AllPlatforms = "linux", "amd64", false
}

// S5: several patterns are a union: a selector built from two patterns matches a label iff one of
// the two patterns does (whatever the constructor does with the list - deduplication, ordering,
// "covered" patterns - must not change the matched set). Patterns are assembled from the grammar
// with symbolic package and name parts; the probe label is symbolic.
func VerifC12_S_pattern_union() {
	mkPat := func(tag string) label.TargetPattern {
		pkg := sym.StringNAlpha("pkg_"+tag, unionLen(), "a/")
		rec := []string{"", "/..."}[sym.Choice("recursive_"+tag, 2)]
		var filter string
		switch sym.Choice("filter_"+tag, 3) {
		case 1:
			filter = ":all"
		case 2:
			filter = ":" + sym.StringNAlpha("name_"+tag, 1, "ab")
		}
		text := "//" + pkg + rec + filter
		p, err := label.ParseTargetPattern("", text)
		sym.Assume(err == nil)
		return p
	}
	p1, p2 := mkPat("1"), mkPat("2")
	lp := sym.StringAlpha("probe_pkg", unionLen(), "a/")
	ln := sym.StringAlpha("probe_name", 1, "ab")
	sym.Assume(!sym.HasPrefix(lp, "/") && !sym.HasSuffix(lp, "/") && !sym.Contains(lp, "//"))
	sym.Assume(ln != "")
	l := label.TargetLabel{Package: lp, Name: ln}
	config.Global.AllPlatforms = false
	sel := New([]label.TargetPattern{p1, p2}, nil, nil, AllTargets)
	want := sym.Or(p1.Matches(l), p2.Matches(l))
	sym.Assert(sym.Iff(sel.Match(&model.Target{Label: l}), want), "C12.S5.two-patterns-select-the-union")
	sym.Assert(sym.Iff(sel.Match(&model.Alias{Label: l, Actual: label.TL("x", "y")}), want), "C12.S5.two-patterns-select-the-union-for-aliases")
	sym.Reach("C12.S.union")
}

func unionLen() int {
	if sym.Tier() == "thorough" {
		return 3
	}
	return 1
}

// S6: --tag is "any of", --exclude-tag is "none of", for every combination of up to three tags on
// the selector's two lists and on the target
func VerifC12_S_tag_lists() {
	config.Global.AllPlatforms = false
	all := []string{"t1", "t2", "t3"}
	subset := func(name string) []string {
		var out []string
		for _, t := range all {
			if flag(name + "_" + t) {
				out = append(out, t)
			}
		}
		return out
	}
	has := func(set []string, t string) bool {
		for _, x := range set {
			if x == t {
				return true
			}
		}
		return false
	}
	want, exclude, own := subset("select"), subset("exclude"), subset("target")
	anyWanted, anyExcluded := len(want) == 0, false
	for _, t := range own {
		if has(want, t) {
			anyWanted = true
		}
		if has(exclude, t) {
			anyExcluded = true
		}
	}
	sel := New(nil, want, exclude, AllTargets)
	got := sel.Match(&model.Target{Label: label.TL("p", "x"), Tags: own})
	sym.Assert(got == (anyWanted && !anyExcluded), "C12.S6.tags-any-of-and-exclude-none-of")
	sym.Reach("C12.S.tag-lists")
}
