//go:build verif

package label

import (
	"grog/internal/zzverif/sym"
)

const labelAlpha = "ab./:-_A0"

// L1: parse(print(parse s)) == parse s, for every accepted label text.
func VerifC17_L1() {
	cur := sym.StringNAlpha("cur", 2, "ab/.")
	s := sym.StringNAlpha("s", 5, labelAlpha)
	l, err := ParseTargetLabel(cur, s)
	if err != nil {
		return
	}
	sym.Reach("L1.accepted")
	l2, err2 := ParseTargetLabel(cur, l.String())
	sym.Assert(err2 == nil, "C17.L1.reparse-ok")
	sym.Assert(l2 == l, "C17.L1.roundtrip")
}
