//go:build verif

package label

import (
	"grog/internal/zzverif/sym"
)

// Alphabets are small on purpose: the parsers distinguish only '/', ':', '.', and the
// name character classes; one representative per class keeps the solver queries tiny
// while every *shape* of string up to the bound is covered.
const (
	labelAlpha = "ab./:-_A0 "
	pkgAlpha   = "ab/"
	nameAlpha  = "ab.l_"
	nameOK     = "abcdefghijklmnopqrstuvwxyzABCDEFGHIJKLMNOPQRSTUVWXYZ0123456789_-."
)

func bound(quick, thorough int) int {
	if sym.Tier() == "thorough" {
		return thorough
	}
	return quick
}

// cleanPkg: p is a clean relative package path: no empty components, no leading/trailing '/'.
func cleanPkg(p string) bool {
	return sym.And(sym.Not(sym.HasPrefix(p, "/")),
		sym.And(sym.Not(sym.HasSuffix(p, "/")), sym.Not(sym.Contains(p, "//"))))
}

func validNameOracle(n string) bool {
	return sym.And(sym.Matches(n, nameOK), sym.And(sym.Not(sym.StrEq(n, "")), sym.Not(sym.StrEq(n, "..."))))
}

// probe label: compared only, so SMT strings (rep A)
func probeLabel() TargetLabel {
	pkg := sym.StringAlpha("probe.pkg", bound(5, 7), pkgAlpha)
	name := sym.StringAlpha("probe.name", bound(3, 4), nameAlpha)
	sym.Assume(cleanPkg(pkg))
	sym.Assume(validNameOracle(name))
	return TargetLabel{Package: pkg, Name: name}
}

// L1: parse(print(parse s)) == parse s, for every accepted label text.
func VerifC17_L1() {
	cur := sym.StringNAlpha("cur", 2, "ab/.")
	s := sym.StringNAlpha("s", bound(5, 7), labelAlpha)
	l, err := ParseTargetLabel(cur, s)
	if err != nil {
		return
	}
	sym.Reach("L1.accepted")
	l2, err2 := ParseTargetLabel(cur, l.String())
	sym.Assert(err2 == nil, "C17.L1.reparse-ok")
	sym.Assert(l2 == l, "C17.L1.roundtrip")
	// printing is canonical: //pkg:name
	sym.Assert(l.String() == "//"+l.Package+":"+l.Name, "C17.L1.canonical")
}

// L2: //a/b means //a/b:b
func VerifC17_L2() {
	p := sym.StringNAlpha("p", bound(5, 7), "ab/.-")
	l, err := ParseTargetLabel("x", "//"+p)
	if err != nil {
		return
	}
	sym.Reach("L2.accepted")
	sym.Assert(l.Package == p, "C17.L2.pkg")
	// the name is the last path component
	sym.Assert(sym.Or(sym.HasSuffix(p, "/"+l.Name), sym.StrEq(p, l.Name)), "C17.L2.name-is-last-component")
	sym.Assert(sym.Not(sym.Contains(l.Name, "/")), "C17.L2.name-no-slash")
	l2, err2 := ParseTargetLabel("x", "//"+p+":"+l.Name)
	sym.Assert(err2 == nil && l2 == l, "C17.L2.explicit-equivalent")
	sym.Assert(l.CanBeShortened(), "C17.L2.can-be-shortened")
}

// L3: :x resolves against the current package ("." is the root)
func VerifC17_L3() {
	cur := sym.StringNAlpha("cur", 3, "ab/.")
	n := sym.StringNAlpha("n", bound(4, 5), labelAlpha)
	l, err := ParseTargetLabel(cur, ":"+n)
	ok := validNameOracle(n)
	sym.Assert(sym.Iff(err == nil, ok), "C17.L3.accept-iff-valid-name")
	if err != nil {
		return
	}
	sym.Reach("L3.accepted")
	sym.Assert(l.Name == n, "C17.L3.name")
	sym.Assert(sym.Or(sym.And(sym.StrEq(cur, "."), sym.StrEq(l.Package, "")),
		sym.And(sym.Not(sym.StrEq(cur, ".")), sym.StrEq(l.Package, cur))), "C17.L3.pkg")
}

// L4: accepted names are exactly [A-Za-z0-9_.-]+ minus "..."; over all printable ASCII
func VerifC17_L4() {
	n := sym.StringN("n", bound(3, 4))
	err := validateName(n)
	sym.Assert(sym.Iff(err == nil, validNameOracle(n)), "C17.L4.name-charset")
	if err == nil {
		sym.Reach("L4.accepted")
	} else {
		sym.Reach("L4.rejected")
	}
}

// L5: explicit //pkg:name parses to exactly (pkg, name) and rejects invalid names
func VerifC17_L5() {
	p := sym.StringNAlpha("p", bound(3, 4), "ab/.")
	n := sym.StringNAlpha("n", bound(3, 4), "ab.:/_ ")
	l, err := ParseTargetLabel("x", "//"+p+":"+n)
	pHasColon := sym.Contains(p, ":")
	sym.Assume(sym.Not(pHasColon))
	sym.Assert(sym.Iff(err == nil, validNameOracle(n)), "C17.L5.accept-iff-valid-name")
	if err == nil {
		sym.Reach("L5.accepted")
		sym.Assert(l.Package == p && l.Name == n, "C17.L5.components")
	}
}

// P1: //p/... [:name] matches exactly package p and below, at component boundaries
func VerifC17_P1() {
	p := sym.StringNAlpha("p", bound(3, 5), pkgAlpha)
	sym.Assume(cleanPkg(p))
	form := sym.Choice("form", 4) // 0: //p/...  1: //p/...:n  2: //p/...:all  3: //p/...:...
	n := ""
	text := "//" + p + "/..."
	if p == "" {
		text = "//..."
	}
	switch form {
	case 1:
		n = sym.StringNAlpha("n", 2, nameAlpha)
		sym.Assume(validNameOracle(n))
		sym.Assume(sym.Not(sym.StrEq(n, "all")))
		text += ":" + n
	case 2:
		text += ":all"
	case 3:
		text += ":..."
	}
	pat, err := ParseTargetPattern("cur", text)
	sym.Assert(err == nil, "C17.P1.parses")
	if err != nil {
		return
	}
	l := probeLabel()
	inPkg := sym.Or(sym.StrEq(p, ""), sym.Or(sym.StrEq(l.Package, p), sym.HasPrefix(l.Package, p+"/")))
	nameOK := true
	if form == 1 {
		nameOK = sym.StrEq(l.Name, n)
	}
	sym.Reach("P1.checked")
	sym.Assert(sym.Iff(pat.Matches(l), sym.And(inPkg, nameOK)), "C17.P1.recursive-matches-exactly")
	// never a sibling such as p2
	sib := TargetLabel{Package: p + "2", Name: l.Name}
	if p != "" {
		sym.Assert(!pat.Matches(sib), "C17.P1.no-sibling")
	}
}

// P2/P3: //p:all, //p:..., //p:n, //p (shorthand), :n (relative)
func VerifC17_P2() {
	p := sym.StringNAlpha("p", bound(5, 6), pkgAlpha)
	sym.Assume(cleanPkg(p))
	form := sym.Choice("form", 5) // 0 //p:all 1 //p:... 2 //p:n 3 //p 4 :n (cur=p)
	n := ""
	var text string
	switch form {
	case 0:
		text = "//" + p + ":all"
	case 1:
		text = "//" + p + ":..."
	case 2:
		n = sym.StringNAlpha("n", 2, nameAlpha)
		sym.Assume(validNameOracle(n))
		sym.Assume(sym.Not(sym.StrEq(n, "all")))
		text = "//" + p + ":" + n
	case 3:
		sym.Assume(sym.Not(sym.StrEq(p, "")))
		text = "//" + p
	case 4:
		n = sym.StringNAlpha("n", 2, nameAlpha)
		sym.Assume(validNameOracle(n))
		sym.Assume(sym.Not(sym.StrEq(n, "all")))
		text = ":" + n
	}
	pat, err := ParseTargetPattern(p, text)
	sym.Assert(err == nil, "C17.P2.parses")
	if err != nil {
		return
	}
	l := probeLabel()
	samePkg := sym.StrEq(l.Package, p)
	var want bool
	switch form {
	case 0, 1:
		want = samePkg
	case 2, 4:
		want = sym.And(samePkg, sym.StrEq(l.Name, n))
	case 3:
		// shorthand: name is the last component of p
		want = sym.And(samePkg, sym.Or(sym.StrEq(p, l.Name), sym.HasSuffix(p, "/"+l.Name)))
	}
	sym.Reach("P2.checked")
	sym.Assert(sym.Iff(pat.Matches(l), want), "C17.P2.nonrecursive-matches-exactly")
}

// P4: printing then re-parsing a pattern preserves the set of labels it matches
func VerifC17_P4() {
	text := sym.StringNAlpha("text", bound(6, 8), "a/.:l")
	cur := "c"
	pat, err := ParseTargetPattern(cur, text)
	if err != nil {
		return
	}
	// documented precondition: package paths are clean relative paths (no empty components);
	// e.g. "////:l" (prefix "/") is outside the claim
	sym.Assume(cleanPkg(pat.prefix))
	sym.Reach("P4.accepted")
	pat2, err2 := ParseTargetPattern(cur, pat.String())
	sym.Assert(err2 == nil, "C17.P4.reparse-ok")
	if err2 != nil {
		return
	}
	l := probeLabel()
	sym.Assert(sym.Iff(pat.Matches(l), pat2.Matches(l)), "C17.P4.print-parse-preserves-matches")
}

// P4b: the same obligation on patterns assembled from their grammar (reaches texts longer than the
// free-text bound of P4, e.g. "//...:l" or "//a/a/...:l")
func VerifC17_P4_structured() {
	lead := []string{"//", ""}[sym.Choice("lead", 2)]
	pkg := sym.StringNAlpha("pkg", bound(4, 5), "a/")
	rec := []string{"", "...", "/..."}[sym.Choice("recursive", 3)]
	filter := ""
	if sym.Choice("filter", 2) == 1 {
		filter = ":" + sym.StringNAlpha("name", 2, "al")
	}
	text := lead + pkg + rec + filter
	cur := "c"
	pat, err := ParseTargetPattern(cur, text)
	if err != nil {
		return
	}
	sym.Assume(cleanPkg(pat.prefix))
	sym.Reach("P4b.accepted")
	pat2, err2 := ParseTargetPattern(cur, pat.String())
	sym.Assert(err2 == nil, "C17.P4.reparse-ok")
	if err2 != nil {
		return
	}
	l := probeLabel()
	sym.Assert(sym.Iff(pat.Matches(l), pat2.Matches(l)), "C17.P4.print-parse-preserves-matches")
}

// P6: a relative pattern means the same as its absolute spelling from the current package:
// ":x" == "//cur:x" for x in {all, ..., a name}
func VerifC17_P6_relative_equals_absolute() {
	cur := sym.StringNAlpha("cur", bound(2, 3), "a/")
	sym.Assume(cleanPkg(cur))
	sym.Assume(cur != "") // the root package has its own spellings ("//...", "//:x"), covered by P1/P2
	var rel, abs string
	switch sym.Choice("form", 3) {
	case 0:
		rel, abs = ":all", "//"+cur+":all"
	case 1:
		rel, abs = ":...", "//"+cur+":..."
	default:
		n := sym.StringNAlpha("name", 2, "al")
		rel, abs = ":"+n, "//"+cur+":"+n
	}
	p1, err1 := ParseTargetPattern(cur, rel)
	p2, err2 := ParseTargetPattern(cur, abs)
	sym.Assert((err1 == nil) == (err2 == nil), "C17.P6.relative-and-absolute-accepted-alike")
	if err1 != nil || err2 != nil {
		return
	}
	l := probeLabel()
	sym.Assert(sym.Iff(p1.Matches(l), p2.Matches(l)), "C17.P6.relative-pattern-equals-absolute-spelling")
	sym.Reach("P6.accepted")
}

// P5: TargetPatternFromLabel(l) matches exactly l; match-all matches everything
func VerifC17_P5() {
	pkg := sym.StringAlpha("l.pkg", 4, pkgAlpha)
	name := sym.StringAlpha("l.name", 3, nameAlpha)
	sym.Assume(validNameOracle(name))
	sym.Assume(sym.Not(sym.Or(sym.StrEq(name, "all"), sym.StrEq(name, "..."))))
	l := TargetLabel{Package: pkg, Name: name}
	probe := probeLabel()
	pat := TargetPatternFromLabel(l)
	sym.Assert(sym.Iff(pat.Matches(probe), sym.And(sym.StrEq(probe.Package, pkg), sym.StrEq(probe.Name, name))), "C17.P5.from-label-exact")
	sym.Assert(GetMatchAllTargetPattern().Matches(probe), "C17.P5.match-all")
	pats, err := ParsePatternsOrMatchAll("c", nil)
	sym.Assert(err == nil && len(pats) == 1 && pats[0].Matches(probe), "C17.P5.empty-means-all")
}
