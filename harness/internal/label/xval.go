//go:build verif

package label

import (
	"fmt"

	"grog/internal/zzverif/sym"
)

// Concrete cross-validation: the same inputs go through the engine and through the native
// build; the transcripts must be identical (inputs taken from the repository's own tests plus
// boundary cases).
func VerifXval_label() {
	labels := []string{"//pkg:target", "//pkg", "//pkg/sub", ":target", "//:root", "//", "", "pkg:target", "//pkg:", ":", "//pkg:...",
		"//pkg:a b", "//a/b/c:d-e_f.g", "//foo:foo", "//pkg:tar:get", "///x", "//x/", ":..."}
	for _, cur := range []string{"cur/pkg", ".", ""} {
		for _, s := range labels {
			l, err := ParseTargetLabel(cur, s)
			sym.Transcript(fmt.Sprintf("label %q %q -> %q %q err=%v short=%v test=%v", cur, s, l.Package, l.Name, err != nil, err == nil && l.CanBeShortened(), l.IsTest()))
			if err == nil {
				sym.Transcript("  string " + l.String())
			}
		}
	}
	patterns := []string{"//...", "//foo/...", "//foo/...:bar", "//foo:all", "//foo:...", "//foo", "//foo/bar", ":x", ":all", "x:y", "x", "//foo...", "//foo/...x", "//:all", "//foo:", "//foo/:a", "//...:..."}
	probes := []TargetLabel{{"foo", "bar"}, {"foo", "foo"}, {"foo/bar", "bar"}, {"foo2", "bar"}, {"", "x"}, {"cur", "x"}, {"foobar/x", "y"}}
	for _, p := range patterns {
		pat, err := ParseTargetPattern("cur", p)
		line := fmt.Sprintf("pattern %q err=%v", p, err != nil)
		if err == nil {
			line += " string=" + pat.String() + " matches="
			for _, pr := range probes {
				if pat.Matches(pr) {
					line += "1"
				} else {
					line += "0"
				}
			}
		}
		sym.Transcript(line)
		pp := ParsePartialTargetPattern("cur", p)
		sym.Transcript(fmt.Sprintf("  partial %q %q %v %v", pp.Prefix(), pp.Target(), pp.Recursive(), pp.IsPrefixPartial()))
	}
	for _, n := range []string{"a", "", "...", "a b", "A-z_0.9", "é", "a/b", "a:b"} {
		sym.Transcript(fmt.Sprintf("name %q ok=%v", n, validateName(n) == nil))
	}
}
