#!/bin/sh
# usage: seedtest.sh <seed-dir> <property> [tier]  -- applies patch.diff to /repo, runs the check, reverts
set -e
d=$1; p=$2; t=${3:-quick}
git -C /repo apply "$d/patch.diff"
trap 'git -C /repo checkout -- . ' EXIT
python3 /verif/check.py $p --tier $t 2>/dev/null | cut -c1-260
echo "exit=$?"
