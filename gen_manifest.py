#!/usr/bin/env python3
"""Regenerates MANIFEST.json from checks.json + manifest_meta.json."""
import json, os
V = os.path.dirname(os.path.abspath(__file__))
checks = json.load(open(os.path.join(V, "checks.json")))
meta = json.load(open(os.path.join(V, "manifest_meta.json")))
props = [json.loads(l)["id"] for l in open(os.path.join(V, "properties.jsonl"))]
m = {
    "version": 1,
    "setup_cmd": "sh /verif/setup.sh",
    "hooks": {
        "guard": "verif",
        "enable": "harnesses and the sym support package are injected by go/packages overlay (and go test -overlay for replay) with -tags=verif; nothing is committed to /repo for hooks",
        "baseline_off_cmd": "python3 /verif/baseline_check.py",
        "source_commits": [],
        "add_only": True,
    },
    "engines": [{
        "name": "gosym",
        "path": "/verif/engine",
        "serves_properties": sorted(checks.keys()),
        "kind_free_text": "symbolic executor for Go SSA (go/ssa of /repo's working tree, rebuilt on every run) with an SMT back end (z3 5.1 via stdin); bounded; counterexamples replayed natively with go test -overlay or by deterministic re-execution of the decision vector",
    }],
    "checks": [],
    "not_applicable": [],
    "notes": meta.get("notes", ""),
}
for pid in props:
    if pid in checks:
        c = checks[pid]
        mm = meta["checks"].get(pid, {})
        m["checks"].append({
            "property_id": pid,
            "quick_cmd": "python3 /verif/check.py %s --tier quick" % pid,
            "thorough_cmd": "python3 /verif/check.py %s --tier thorough" % pid,
            "evidence_file": "/verif/evidence/%s.json" % pid,
            "replay_cmd_template": "/verif/bin/gosym -repo /repo -verif /verif " + " ".join("-pkg " + p for p in c["pkgs"]) + " -entry '" + c["entry"] + "' -replay {path} -v",
            "engine": "gosym",
            "level_claimed": {
                "category": "model_checking",
                "text": mm.get("text", "bounded symbolic execution of the real code; solver decides every obligation for all inputs within the stated bounds"),
                "design_ref": mm.get("design_ref", "DESIGN.md §3"),
            },
            "level_note": mm.get("note", "; ".join(c.get("assumptions", []))),
            "technique": mm.get("technique", "symbolic execution of Go SSA + SMT (z3), bounded"),
        })
    else:
        m["not_applicable"].append({"property_id": pid, "reason": meta["not_applicable"].get(pid, "harness not built yet in this round (see DESIGN.md)")})
json.dump(m, open(os.path.join(V, "MANIFEST.json"), "w"), indent=1)
print("checks:", [c["property_id"] for c in m["checks"]], "n/a:", len(m["not_applicable"]))
