#!/usr/bin/env python3
"""check.py <property-id> [--tier quick|thorough]

Runs the symbolic-execution harnesses of one property with gosym against /repo's
current working tree, replays counterexamples, writes /verif/evidence/<id>.json and
prints KNOWN-FINDING / VIOLATION lines.

exit 0: every obligation discharged on everything explored (known findings listed)
exit 1: a violation was found and reproduced (VIOLATION line printed)
exit 2: inconclusive (bound not reached, unsupported path, solver unknown/error,
        counterexample that does not reproduce) -- never reported as success
"""
import json, os, re, subprocess, sys, time, shutil, hashlib, glob

VERIF = os.path.dirname(os.path.abspath(__file__))
REPO = os.environ.get("VERIF_REPO", "/repo")
GOSYM = os.path.join(VERIF, "bin", "gosym")
GOENV = dict(os.environ, GOFLAGS="-mod=readonly", GOPROXY="off", GOTOOLCHAIN="local",
             PATH="/opt/veriftools/go1.26.8/bin:" + os.environ.get("PATH", "") + ":/usr/local/bin:/usr/bin:/bin")
# do not depend on how the caller's environment locates the module cache (HOME / GOPATH may be unset)
if os.path.isdir("/root/go/pkg/mod"):
    GOENV.setdefault("HOME", "/root")
    GOENV.setdefault("GOPATH", "/root/go")
    GOENV.setdefault("GOMODCACHE", "/root/go/pkg/mod")


def load_checks():
    with open(os.path.join(VERIF, "checks.json")) as f:
        return json.load(f)


def load_known():
    """known_findings.txt lines:
         finding: property=<id> key=<entry-or-class key> <text>
         fixed: property=<id> <commit> <text>
    """
    known = {}
    path = os.path.join(VERIF, "known_findings.txt")
    if not os.path.exists(path):
        return known
    for line in open(path):
        line = line.strip()
        if not line.startswith("finding:"):
            continue
        m = re.match(r"finding:\s+property=(\S+)\s+key=(\S+)\s*(.*)", line)
        if m:
            known.setdefault(m.group(1), {})[m.group(2)] = m.group(3)
    return known


def ensure_built():
    if not os.path.exists(GOSYM):
        subprocess.check_call(["sh", os.path.join(VERIF, "setup.sh")], cwd=VERIF)


def run_gosym(cfg, tier, outfile, extra=None):
    t = cfg.get(tier, {})
    args = [GOSYM, "-repo", REPO, "-verif", VERIF, "-tier", tier, "-out", outfile,
            "-entry", cfg["entry"], "-workers", str(t.get("workers", 16)),
            "-time", t.get("time", "10m"), "-max-paths", str(t.get("max_paths", 400000)),
            "-max-steps", str(t.get("max_steps", 2000000))]
    if t.get("sched"):
        args += ["-sched", "-preempt", str(t.get("preempt", 2))]
    for p in cfg["pkgs"]:
        args += ["-pkg", p]
    if cfg.get("support"):
        args += ["-support", cfg["support"]]
    if extra:
        args += extra
    p = subprocess.run(args, env=GOENV, stdout=subprocess.PIPE, stderr=subprocess.PIPE, text=True)
    return p


def harness_ids(cfg, pid):
    ids = set()
    for p in cfg["pkgs"]:
        for f in glob.glob(os.path.join(VERIF, "harness", p, "*.go")):
            src = open(f).read()
            failf = set(re.findall(r'Failf\("([^"]+)"\)', src))
            for m in re.finditer(r'"(%s\.[A-Za-z0-9_.\-]+)"' % re.escape(pid), src):
                if m.group(1) not in failf:
                    ids.add(m.group(1))
    return ids


def native_replay(cfg, viol, workdir):
    """Re-run the harness natively (go test + overlay) with the model values.
    Returns (status, detail): status in confirmed / not-reproduced / assume-failed / error"""
    entry = viol["entry"]
    pkgpath, fn = entry.rsplit(".", 1)
    rel = pkgpath[len("grog/"):]
    pkgname = None
    overlay = {}
    for p in cfg["pkgs"]:
        for f in glob.glob(os.path.join(VERIF, "harness", p, "*.go")):
            overlay[os.path.join(REPO, p, "zz_verif_" + os.path.basename(f))] = f
            if p == rel and pkgname is None:
                m = re.search(r"^package (\w+)", open(f).read(), re.M)
                pkgname = m.group(1)
    for d in glob.glob(os.path.join(VERIF, "support", "*")):
        for f in glob.glob(os.path.join(d, "*.go")):
            overlay[os.path.join(REPO, "internal", "zzverif", os.path.basename(d), "zz_verif_" + os.path.basename(f))] = f
    test = os.path.join(workdir, "replay_test.go")
    with open(test, "w") as f:
        f.write("""//go:build verif

package %s

import (
	"fmt"
	"testing"

	"grog/internal/zzverif/sym"
)

func TestVerifReplay(t *testing.T) {
	failed, ok, notes := sym.Run(%s)
	fmt.Printf("REPLAY ok=%%v failed=%%q notes=%%q\\n", ok, failed, notes)
}
""" % (pkgname, fn))
    overlay[os.path.join(REPO, rel, "zz_verif_replay_test.go")] = test
    ov = os.path.join(workdir, "overlay.json")
    json.dump({"Replace": overlay}, open(ov, "w"))
    model = os.path.join(workdir, "model.json")
    json.dump(viol, open(model, "w"))
    env = dict(GOENV, VERIF_MODEL=model)
    try:
        p = subprocess.run(["go", "test", "-v", "-tags", "verif", "-vet=off", "-count=1", "-overlay", ov,
                            "-run", "^TestVerifReplay$", "./" + rel], cwd=REPO, env=env,
                           stdout=subprocess.PIPE, stderr=subprocess.STDOUT, text=True, timeout=600)
    except subprocess.TimeoutExpired:
        return "confirmed-hang", "native replay did not terminate within 600s"
    out = p.stdout
    m = re.search(r"REPLAY ok=(\w+) failed=\[(.*?)\] notes=(.*)", out)
    if not m:
        if "panic:" in out or "fatal error:" in out:
            return "confirmed-crash", out[-2000:]
        return "error", out[-2000:]
    if m.group(1) != "true":
        return "assume-failed", out[-500:]
    failed = re.findall(r'"((?:[^"\\]|\\.)*)"', m.group(2))
    vid = viol["id"]
    for f in failed:
        if f == vid or (vid.startswith("implicit.panic") and f.startswith("implicit.panic")):
            return "confirmed", m.group(0)
    return "not-reproduced", m.group(0)


def cross_validate(cfg, tier, workdir):
    """Concrete cross-validation: VerifXval_* entries run through the engine and natively; transcripts must match.
    Returns (lines_matched, problems)."""
    pkgs = [p for p in cfg["pkgs"] if glob.glob(os.path.join(VERIF, "harness", p, "xval*.go"))]
    if not pkgs:
        return 0, []
    problems = []
    out = os.path.join(workdir, "xval.json")
    c2 = dict(cfg, pkgs=pkgs, entry="VerifXval_.*")
    c2[tier] = dict(cfg.get(tier, {}), sched=False, workers=2)
    p = run_gosym(c2, tier, out)
    if p.returncode != 0 or not os.path.exists(out):
        return 0, ["cross-validation: gosym failed: " + p.stderr[-600:]]
    eng = {}
    for e in json.load(open(out))["entries"]:
        if e["unsupported"] or not e.get("transcript"):
            problems.append("cross-validation: %s did not run to completion in the engine: %s" % (e["entry"], list(e["unsupported"])[:2]))
            continue
        eng[e["entry"]] = e["transcript"]
    matched = 0
    for pkgpath in sorted(set(k.rsplit(".", 1)[0] for k in eng)):
        rel = pkgpath[len("grog/"):]
        fns = sorted(k.rsplit(".", 1)[1] for k in eng if k.rsplit(".", 1)[0] == pkgpath)
        overlay = {}
        pkgname = None
        for pp in cfg["pkgs"]:
            for f in glob.glob(os.path.join(VERIF, "harness", pp, "*.go")):
                overlay[os.path.join(REPO, pp, "zz_verif_" + os.path.basename(f))] = f
                if pp == rel and pkgname is None:
                    pkgname = re.search(r"^package (\w+)", open(f).read(), re.M).group(1)
        for d in glob.glob(os.path.join(VERIF, "support", "*")):
            for f in glob.glob(os.path.join(d, "*.go")):
                overlay[os.path.join(REPO, "internal", "zzverif", os.path.basename(d), "zz_verif_" + os.path.basename(f))] = f
        test = os.path.join(workdir, "xval_%s_test.go" % pkgname)
        body = "\n".join('\t%s()\n\tfor _, l := range sym.TakeTranscript() {\n\t\tfmt.Printf("XVAL %s %%s\\n", l)\n\t}' % (fn, fn) for fn in fns)
        open(test, "w").write("//go:build verif\n\npackage %s\n\nimport (\n\t\"fmt\"\n\t\"testing\"\n\n\t\"grog/internal/zzverif/sym\"\n)\n\nfunc TestVerifXval(t *testing.T) {\n%s\n}\n" % (pkgname, body))
        overlay[os.path.join(REPO, rel, "zz_verif_xval_test.go")] = test
        ov = os.path.join(workdir, "xval_overlay.json")
        json.dump({"Replace": overlay}, open(ov, "w"))
        try:
            pr = subprocess.run(["go", "test", "-v", "-tags", "verif", "-vet=off", "-count=1", "-overlay", ov, "-run", "^TestVerifXval$", "./" + rel],
                                cwd=REPO, env=GOENV, stdout=subprocess.PIPE, stderr=subprocess.STDOUT, text=True, timeout=600)
        except subprocess.TimeoutExpired:
            problems.append("cross-validation: native run of %s timed out" % rel)
            continue
        nat = {}
        for line in pr.stdout.splitlines():
            m = re.match(r"XVAL (\S+) (.*)", line)
            if m:
                nat.setdefault(m.group(1), []).append(m.group(2))
        for fn in fns:
            a, b = eng[pkgpath + "." + fn], nat.get(fn)
            if b is None:
                problems.append("cross-validation: native run of %s produced no transcript: %s" % (fn, pr.stdout[-400:]))
                continue
            b = [x.rstrip() for x in b]
            a = [x.rstrip() for x in a]
            if a != b:
                diff = next((i for i in range(min(len(a), len(b))) if a[i] != b[i]), min(len(a), len(b)))
                problems.append("cross-validation MISMATCH in %s at line %d: engine %r vs native %r" % (
                    fn, diff, a[diff] if diff < len(a) else None, b[diff] if diff < len(b) else None))
            else:
                matched += len(a)
    return matched, problems


def engine_replay(cfg, tier, viol, workdir):
    vf = os.path.join(workdir, "viol.json")
    json.dump(viol, open(vf, "w"))
    out = os.path.join(workdir, "replay_out.json")
    c2 = dict(cfg, entry=viol["entry"].rsplit(".", 1)[1])
    c2[tier] = dict(cfg.get(tier, {}), **{k: v for k, v in (viol.get("_run") or {}).items() if k != "entry"})
    p = run_gosym(c2, tier, out, ["-replay", vf, "-workers", "1"])
    if p.returncode != 0 or not os.path.exists(out):
        return "error", p.stderr[-2000:]
    res = json.load(open(out))
    for e in res["entries"]:
        for v in e["violations"]:
            if v["id"] == viol["id"]:
                return "confirmed-engine", "deterministic re-execution of the recorded decision vector reproduces %s" % v["id"]
    return "not-reproduced", "engine replay did not reproduce"


def main():
    if len(sys.argv) < 2:
        print(__doc__)
        sys.exit(2)
    pid = sys.argv[1]
    tier = os.environ.get("VERIF_TIER", "quick")
    if "--tier" in sys.argv:
        tier = sys.argv[sys.argv.index("--tier") + 1]
    seed = int(os.environ.get("VERIF_SEED", "0") or 0)
    checks = load_checks()
    if pid not in checks:
        print("unknown property", pid)
        sys.exit(2)
    cfg = checks[pid]
    known = load_known().get(pid, {})
    ensure_built()
    t0 = time.time()
    work = os.path.join(VERIF, "tmp", "%s-%s-%d" % (pid, tier, os.getpid()))
    os.makedirs(work, exist_ok=True)
    # VERIF_OUT (testing the machinery against scratch trees only): evidence and replay files go there
    OUT = os.environ.get("VERIF_OUT", VERIF)
    os.makedirs(os.path.join(OUT, "evidence"), exist_ok=True)
    os.makedirs(os.path.join(OUT, "replays"), exist_ok=True)
    outfile = os.path.join(work, "out.json")
    evfile = os.path.join(OUT, "evidence", pid + ".json")
    if os.path.exists(evfile):
        os.remove(evfile)

    problems = []
    runs = cfg.get(tier, {}).get("runs") or [{}]
    res = {"entries": [], "load_seconds": 0, "solver": []}
    for ri, rcfg in enumerate(runs):
        c2 = dict(cfg)
        c2[tier] = dict(cfg.get(tier, {}), **rcfg)
        if "entry" in rcfg:
            c2["entry"] = rcfg["entry"]
        of = outfile + ".%d" % ri
        p = run_gosym(c2, tier, of)
        sys.stderr.write(p.stderr)
        if p.returncode != 0 or not os.path.exists(of):
            problems.append("gosym failed (exit %d): %s" % (p.returncode, p.stderr[-1500:]))
            continue
        r1 = json.load(open(of))
        for e1 in r1["entries"]:
            for v1 in e1["violations"]:
                v1["_run"] = rcfg  # replay under the settings (schedule exploration, deviation bound) it was found with
        res["entries"] += r1["entries"]
        res["load_seconds"] += r1.get("load_seconds", 0)
        res["solver"] = r1.get("solver")

    known_entries = cfg.get("known_entries", {})  # entry name -> finding key
    expected_ids = harness_ids(cfg, pid)
    seen_ids = {}
    tot = dict(paths=0, forks=0, queries=0, sat=0, unsat=0, unknown=0, solver_s=0.0, steps=0, checked=0, discharged=0)
    samples = []
    violations_new = []
    known_lines = []
    confirmed = 0
    replays = 0
    entries_summary = []
    intercepts = {}
    for e in res["entries"]:
        name = e["entry"].rsplit(".", 1)[1]
        tot["paths"] += e["paths"]; tot["forks"] += e["forks"]; tot["queries"] += e["solver_queries"]
        tot["sat"] += e["solver_sat"]; tot["unsat"] += e["solver_unsat"]; tot["unknown"] += e["solver_unknown"]
        tot["solver_s"] += e["solver_seconds"]; tot["steps"] += e["ssa_instructions"]
        for k, n in (e.get("intercepts") or {}).items():
            intercepts[k] = intercepts.get(k, 0) + n
        if not e["complete"]:
            problems.append("%s: exploration incomplete (%s)" % (name, e.get("stop_reason")))
        if e["unsupported"]:
            for msg, n in e["unsupported"].items():
                problems.append("%s: %d unsupported path(s): %s" % (name, n, msg[:300]))
        if e["ends"].get("budget"):
            problems.append("%s: %d path(s) hit the unwinding/instruction bound" % (name, e["ends"]["budget"]))
        if e["solver_errors"]:
            problems.append("%s: %d solver error line(s)" % (name, e["solver_errors"]))
        if e["ends"].get("done", 0) + e["ends"].get("violation-stop", 0) + e["ends"].get("panic", 0) + e["ends"].get("deadlock", 0) + e["ends"].get("crash", 0) == 0:
            problems.append("%s: no path ran to completion (vacuous)" % name)
        for aid, a in e["asserts"].items():
            s = seen_ids.setdefault(aid, dict(checked=0, discharged=0, violated=0, unknown=0, trivial=0))
            s["checked"] += a["Checked"]; s["discharged"] += a["Discharged"]; s["violated"] += a["Violated"]
            s["unknown"] += a["Unknown"]; s["trivial"] += a["Trivial"]
            tot["checked"] += a["Checked"]; tot["discharged"] += a["Discharged"]
            if a["Unknown"] and name not in known_entries:
                problems.append("%s: assertion %s: %d unknown solver answers" % (name, aid, a["Unknown"]))
        for smp in e.get("samples") or []:
            if len(samples) < 8:
                samples.append(smp)
        entries_summary.append(dict(entry=name, paths=e["paths"], forks=e["forks"], ends=e["ends"],
                                    queries=e["solver_queries"], solver_s=round(e["solver_seconds"], 2),
                                    wall_s=round(e["wall_seconds"], 2), complete=e["complete"],
                                    violations=len(e["violations"]), reached=e["reached"]))
        is_known_entry = name in known_entries and known_entries[name] in known
        if is_known_entry and e["violations"]:
            key = known_entries[name]
            known_lines.append("KNOWN-FINDING: property=%s %s -- %s (demonstrated by %s: %s)" % (
                pid, key, known[key], name, json.dumps(e["violations"][0]["model"], sort_keys=True)[:300]))
            continue
        for v in e["violations"]:
            cls = v.get("class") or ""
            if not cls and cfg.get("classify") == "first-preemption":
                # schedule-dependent violations are classified by the operation before which the
                # first preemption happened (the window that was hit)
                for step in v.get("schedule") or []:
                    m = re.match(r"preempt g\d+\(.*?\) before (.+)", step)
                    if m:
                        cls = "preempt-before-" + m.group(1).replace(" ", "-")
                        break
                v["class"] = cls
            if cls and ("class:" + cls) in known:
                line = "KNOWN-FINDING: property=%s class:%s -- %s" % (pid, cls, known["class:" + cls])
                if line not in known_lines:
                    known_lines.append(line)
                continue
            violations_new.append(v)

    # vacuity: every assertion id written in the harness sources must have been checked
    reached_all = set()
    for e in res["entries"]:
        reached_all.update(k for k, n in e["reached"].items() if n)
    for aid in sorted(expected_ids):
        if aid in reached_all:
            continue
        if any(k.startswith(aid + ".") and v["checked"] > 0 for k, v in seen_ids.items()):
            continue  # the literal is a prefix handed to a helper that appends the obligation name
        if aid not in seen_ids or seen_ids[aid]["checked"] == 0:
            # ids belonging to known-finding demo entries that are not registered are skipped
            problems.append("assertion %s was never reached (vacuous harness?)" % aid)
    for rid in cfg.get("must_reach", []):
        hit = any(e["reached"].get(rid) for e in res["entries"])
        if not hit:
            problems.append("reachability witness %s not hit" % rid)

    # replay new violations
    reported = []
    seen_v = set()
    for v in violations_new:
        k = (v["entry"], v["id"])
        if k in seen_v:
            continue
        seen_v.add(k)
        replays += 1
        rdir = os.path.join(work, "replay%d" % replays)
        os.makedirs(rdir, exist_ok=True)
        engine_only = any(re.search(rx, v["entry"]) for rx in cfg.get("engine_replay_entries", [])) or \
            any(re.search(rx, v["id"]) for rx in cfg.get("engine_replay_ids", []))
        if cfg.get("native_replay", False) and v["kind"] in ("assert", "panic") and not engine_only:
            status, detail = native_replay(cfg, v, rdir)
            if status in ("error", "assume-failed", "not-reproduced"):
                # fall back to deterministic engine replay, but mark the discrepancy
                st2, d2 = engine_replay(cfg, tier, v, rdir)
                detail = "native: %s (%s); engine: %s" % (status, detail[-300:], st2)
                status = "native-" + status
        else:
            status, detail = engine_replay(cfg, tier, v, rdir)
        v["replay_status"] = status
        v["replay_detail"] = detail
        rp = os.path.join(OUT, "replays", "%s-%s-%d.json" % (pid, re.sub(r"[^A-Za-z0-9_.-]", "_", v["id"]), replays))
        json.dump(v, open(rp, "w"), indent=1)
        if status.startswith("confirmed"):
            confirmed += 1
            reported.append((v, rp))
        else:
            problems.append("counterexample for %s did not reproduce (%s): %s" % (v["id"], status, detail[:400]))

    xval_lines, xval_problems = cross_validate(cfg, tier, work)
    problems += xval_problems

    wall = time.time() - t0
    nontrivial = sum(max(0, s["checked"] - s["trivial"]) for s in seen_ids.values())
    evidence = {
        "property_id": pid,
        "tier": tier,
        "seed": seed,
        "level": "model_checking",
        "wall_s": round(wall, 2),
        "violations": len(reported),
        "coverage": {
            "states": max(tot["paths"], 1) if tot["paths"] else 0,
            "transitions": max(tot["forks"], 1) if tot["paths"] else 0,
            "traces_validated_against_impl": confirmed + xval_lines,
            "cross_validation_transcript_lines_matched": xval_lines,
            "counterexamples_replayed": confirmed,
            "samples": samples or [{"note": "no completed path produced a sample model"}],
            "obligations": tot["checked"],
            "discharged": tot["discharged"],
            "distinct_nontrivial": nontrivial,
            "evaluations": tot["paths"],
            "rule": "one evaluation = one completed symbolic path (a set of inputs sharing control flow) of a harness; an obligation is non-trivial when its condition stayed symbolic and was decided by the solver",
            "exhaustive": False,
            "explanation": "bounded symbolic execution of the real SSA of the functions listed; every input within the stated bounds is covered by some explored path; nothing is claimed outside the bounds",
            "functions_encoded": cfg.get("functions", []),
            "bounds": cfg.get(tier, {}).get("bounds", cfg.get("bounds", "")),
            "outside_claim": cfg.get("outside", []),
            "solver": {"cmd": res.get("solver"), "queries": tot["queries"], "sat": tot["sat"], "unsat": tot["unsat"],
                       "unknown": tot["unknown"], "seconds": round(tot["solver_s"], 2)},
            "ssa_instructions_executed": tot["steps"],
            "assertions": seen_ids,
            "entries": entries_summary,
            "intercepts_used": dict(sorted(intercepts.items(), key=lambda kv: -kv[1])[:60]),
            "known_findings_demonstrated": known_lines,
            "problems": problems,
            "load_seconds": res.get("load_seconds"),
            "repo_tree": subprocess.run(["git", "-C", REPO, "rev-parse", "HEAD"], stdout=subprocess.PIPE, text=True).stdout.strip(),
        },
        "assumptions": cfg.get("assumptions", []),
    }
    json.dump(evidence, open(evfile, "w"), indent=1)
    shutil.rmtree(work, ignore_errors=True)

    for l in known_lines:
        print(l)
    if reported:
        for v, rp in reported:
            print("VIOLATION property=%s replay=%s id=%s model=%s" % (pid, rp, v["id"], json.dumps(v.get("model"), sort_keys=True)[:400]))
        sys.exit(1)
    if problems:
        for pr in problems:
            print("INCONCLUSIVE: " + pr)
        sys.exit(2)
    print("OK property=%s tier=%s paths=%d obligations=%d/%d discharged queries=%d wall=%.1fs" % (
        pid, tier, tot["paths"], tot["discharged"], tot["checked"], tot["queries"], wall))
    sys.exit(0)


if __name__ == "__main__":
    main()
