//go:build verif

// Package fsm holds the Go-side types the model file system hands to the code under
// test (fs.FileInfo / fs.DirEntry implementations).
package fsm

import (
	"io"
	"io/fs"
	"time"
)

type Info struct {
	N string
	S int64
	M fs.FileMode
	T int64 // modification time (ns on the engine's virtual clock)
}

func (i Info) Name() string               { return i.N }
func (i Info) Size() int64                { return i.S }
func (i Info) Mode() fs.FileMode          { return i.M }
func (i Info) ModTime() time.Time         { return time.Unix(0, i.T) }
func (i Info) IsDir() bool                { return i.M&fs.ModeDir != 0 }
func (i Info) Sys() any                   { return nil }
func (i Info) Type() fs.FileMode          { return i.M & fs.ModeType }
func (i Info) Info() (fs.FileInfo, error) { return i, nil }

var _ fs.FileInfo = Info{}
var _ fs.DirEntry = Info{}

type NopCloser struct{ R io.Reader }

func (n NopCloser) Read(p []byte) (int, error) { return n.R.Read(p) }
func (n NopCloser) Close() error               { return nil }
