//go:build verif

// Package models holds Go-side environment models used by the harnesses (executed by
// the engine like any other code).
package models

import (
	"github.com/alitto/pond/v2"
)

// GoPool implements pond.Pool by running every task on its own goroutine.
type GoPool struct{ pond.Pool }

type goTask struct {
	pond.Task
	done chan struct{}
	err  error
}

func (t *goTask) Wait() error           { <-t.done; return t.err }
func (t *goTask) Done() <-chan struct{} { return t.done }

func (GoPool) SubmitErr(task func() error) pond.Task {
	t := &goTask{done: make(chan struct{})}
	go func() {
		defer close(t.done)
		t.err = task()
	}()
	return t
}

func (p GoPool) Submit(task func()) pond.Task {
	return p.SubmitErr(func() error { task(); return nil })
}

func (p GoPool) Go(task func()) error { go task(); return nil }

func NewGoPool() pond.Pool { return GoPool{} }
