//go:build verif

// Package sym is the harness API. Under the symbolic engine (gosym) every function
// here is intercepted; the bodies below are the native implementation used when a
// counterexample is replayed with `go test`: values come from the model file named
// by $VERIF_MODEL.
package sym

import (
	"encoding/json"
	"fmt"
	"io"
	"os"
	"strings"
	"sync"
)

var (
	once     sync.Once
	model    map[string]any
	mu       sync.Mutex
	failures []string
	reached  = map[string]int{}
	notes    = map[string]string{}
)

func load() {
	once.Do(func() {
		model = map[string]any{}
		if p := os.Getenv("VERIF_MODEL"); p != "" {
			b, err := os.ReadFile(p)
			if err != nil {
				panic(err)
			}
			var v struct {
				Model map[string]any `json:"model"`
			}
			if err := json.Unmarshal(b, &v); err != nil {
				panic(err)
			}
			model = v.Model
		}
	})
}

// Symbolic reports whether the harness runs under the symbolic engine.
func Symbolic() bool { return false }

// Tier is "quick" or "thorough".
func Tier() string {
	if t := os.Getenv("VERIF_TIER"); t != "" {
		return t
	}
	return "quick"
}

func Bool(name string) bool {
	load()
	b, _ := model[name].(bool)
	return b
}

func num(name string) int {
	load()
	switch v := model[name].(type) {
	case float64:
		return int(v)
	case int:
		return v
	}
	return 0
}

func Int(name string, lo, hi int) int {
	load()
	if _, ok := model[name]; !ok {
		return lo
	}
	return num(name)
}

func str(name string) string {
	load()
	s, _ := model[name].(string)
	return s
}

// String is a symbolic string of at most maxLen printable ASCII characters (SMT string).
func String(name string, maxLen int) string { return str(name) }

// StringAlpha restricts the characters to alphabet.
func StringAlpha(name string, maxLen int, alphabet string) string { return str(name) }

// StringN is a string with per-character symbolic bytes (length fixed per path).
func StringN(name string, maxLen int) string { return strN(name) }

func StringNAlpha(name string, maxLen int, alphabet string) string { return strN(name) }

func strN(name string) string {
	load()
	n := num(name + ".len")
	b := make([]byte, n)
	for i := range b {
		c := num(fmt.Sprintf("%s[%d]", name, i))
		if c == 0 {
			c = 'a'
		}
		b[i] = byte(c)
	}
	return string(b)
}

// Choice returns a value in [0,n).
func Choice(name string, n int) int { return num(name) }

func Assume(c bool) {
	if !c {
		panic(assumeFailed{})
	}
}

type assumeFailed struct{}

func Assert(c bool, id string) {
	if !c {
		mu.Lock()
		failures = append(failures, id)
		mu.Unlock()
	}
}

func Failf(id string) { Assert(false, id) }

func Reach(id string) { mu.Lock(); reached[id]++; mu.Unlock() }

func And(a, b bool) bool      { return a && b }
func Or(a, b bool) bool       { return a || b }
func Not(a bool) bool         { return !a }
func Implies(a, b bool) bool  { return !a || b }
func Iff(a, b bool) bool      { return a == b }
func StrEq(a, b string) bool  { return a == b }
func StrLess(a, b string) bool { return a < b }
func IteStr(c bool, a, b string) string {
	if c {
		return a
	}
	return b
}
func IteInt(c bool, a, b int) int {
	if c {
		return a
	}
	return b
}
func HasPrefix(s, p string) bool { return strings.HasPrefix(s, p) }
func HasSuffix(s, p string) bool { return strings.HasSuffix(s, p) }
func Contains(s, p string) bool  { return strings.Contains(s, p) }

// Matches reports whether every byte of s is in alphabet ("" = printable ASCII).
func Matches(s, alphabet string) bool {
	for i := 0; i < len(s); i++ {
		if alphabet == "" {
			if s[i] < 32 || s[i] > 126 {
				return false
			}
		} else if strings.IndexByte(alphabet, s[i]) < 0 {
			return false
		}
	}
	return true
}

func Note(key, val string) { mu.Lock(); notes[key] = val; mu.Unlock() }
func AllowPanic()          {}

// Quiesce lets every other goroutine run until none is runnable (native: no-op).
func Quiesce() {}

// CountCalls/Calls: engine-side call counters (native: always 0, so bounds hold trivially).
func CountCalls(fn string) {}
func Calls(fn string) int { return 0 }

// Steps is the number of SSA instructions executed so far on this path (native: 0).
func Steps() int { return 0 }
func NoteInt(key string, v int) { Note(key, fmt.Sprint(v)) }
func AssumeCleanPaths()    {}
func MapOrder(on bool)     {}
func Yield()               {}

// ExternalEvent blocks until the engine's scheduler decides to deliver an event from outside the
// program (a signal): by default only when nothing else can run, or before any visible step at
// the cost of one scheduling deviation. Natively the event never arrives.
func ExternalEvent(name string) { select {} }

// ProcessExit models the end of a grog process inside one harness run: under the engine all
// goroutines other than the caller die. Natively nothing happens.
func ProcessExit() {}


// CobraRun runs the Run closure of the cobra command variable varName of the calling package with
// the given arguments (engine only: the closure is taken from the package initialiser's SSA, cobra
// itself is not executed). CaptureStdout/TakeStdout collect what fmt.Print* wrote meanwhile.
func CobraRun(varName string, args []string) { panic("sym.CobraRun: engine only") }
func CaptureStdout(on bool)                  {}

// ExploreSchedules switches the engine's schedule exploration off (set-up and follow-up phases of a
// harness run under the default scheduler) and on again. Natively a no-op.
func ExploreSchedules(on bool) {}
func TakeStdout() []string                   { return nil }

func IsConcrete(s string) bool { return true }

// RunToCrash runs f; under the engine f may be cut short at any file-system operation
// (simulated process death). Natively f simply runs to completion.
func RunToCrash(f func()) bool { f(); return false }

// Faults allows up to n injected faults on model-FS operations whose path starts with
// prefix and whose kind is in the comma separated list ops ("" = any). Native: no-op.
func Faults(n int, prefix, ops string) {}
func FaultsInjected() int              { return 0 }
func FSVisible(on bool)                {}
func SetPid(n int)                     {}

// Transcript records one line of a concrete cross-validation run (engine vs native build).
var transcript []string

func Transcript(line string) { mu.Lock(); transcript = append(transcript, line); mu.Unlock() }
func TakeTranscript() []string { mu.Lock(); defer mu.Unlock(); t := transcript; transcript = nil; return t }

// FSLog returns the model file system's operation log ("<pid> <op> <path> [content=..]"); native: empty.
func FSLog() []string { return nil }

// Class labels the violation reported next on this path (used to key known findings).
func Class(c string) {}

// CrashBudget bounds the total number of simulated crashes on a path (native: no-op).
func CrashBudget(n int) {}

// TempDir returns a fresh directory: "/"+name in the model file system, a real temporary
// directory natively.
func TempDir(name string) string {
	d, err := os.MkdirTemp("", "verif-"+name+"-")
	if err != nil {
		panic(err)
	}
	return d
}

// LinesReader returns a reader over the given lines (joined by newlines). Under the engine the
// lines are handed to bufio.Scanner one by one, so individual lines may be symbolic.
func LinesReader(lines []string) io.Reader { return strings.NewReader(strings.Join(lines, "\n")) }

// Run executes a harness natively and returns the ids of failed assertions.
// ok=false means an assumption did not hold for the model (replay not applicable).
func Run(f func()) (failed []string, ok bool, notesOut map[string]string) {
	mu.Lock()
	failures = nil
	mu.Unlock()
	ok = true
	func() {
		defer func() {
			if r := recover(); r != nil {
				if _, isA := r.(assumeFailed); isA {
					ok = false
					return
				}
				mu.Lock()
				failures = append(failures, fmt.Sprintf("implicit.panic: %v", r))
				mu.Unlock()
			}
		}()
		f()
	}()
	mu.Lock()
	defer mu.Unlock()
	return append([]string(nil), failures...), ok, notes
}
