#!/usr/bin/env python3
"""finalize_from_logs.py <log>... : for every seed under /verif/seeded without meta.json, build it from agent_meta.json,
verified.json and the last 'name prop exit=1 ... id=<obligation>' line found in the given trypatch logs."""
import json, os, re, sys, glob
lines = []
for f in sys.argv[1:]:
    if os.path.exists(f):
        lines += open(f).read().splitlines()
missed_first = dict(l.split() for l in open('/verif/seeded/initially_missed.txt').read().splitlines() if l.strip()) if os.path.exists('/verif/seeded/initially_missed.txt') else {}
for d in sorted(glob.glob('/verif/seeded/*/')):
    sid = os.path.basename(d.rstrip('/'))
    if os.path.exists(d + 'meta.json') or not os.path.exists(d + 'agent_meta.json'):
        continue
    am = json.load(open(d + 'agent_meta.json'))
    ver = json.load(open(d + 'verified.json')) if os.path.exists(d + 'verified.json') else None
    hit = None
    for l in lines:
        m = re.match(r'(\S+) (C\d\d) exit=1 .*? id=(\S+)', l)
        if m and m.group(1).split('b')[0] in (sid,) or (m and m.group(1) == sid):
            hit = (m.group(2), m.group(3))
    if not hit or not ver or not ver.get('ok'):
        print('SKIP', sid, 'hit' if hit else 'NO-HIT', 'verified' if ver and ver.get('ok') else 'NOT-verified')
        continue
    prop, obl = hit
    meta = {
        "property": am["property"],
        "breaks": am.get("summary", ""),
        "needs_to_manifest": am.get("needs", ""),
        "author": "independent sub-agent given only the property texts and a scratch worktree",
        "confirmed_by_me": {"how": "python3 /verif/verify_seed.py (scratch worktree of /repo HEAD): git apply, go build ./..., pinned suite vs BASELINE stable_pass, demo test with and without the patch", "result": ver},
        "check_run": "/verif/trypatch.sh %s patch.diff %s   (scratch worktree of /repo HEAD with the patch applied; VERIF_REPO points the quick check at it)" % (sid, prop),
        "caught_by_property_check": prop,
        "caught_by_obligation": obl,
        "initially_missed": {"yes": True, "no": False}.get(missed_first.get(sid), None),
    }
    if prop != am["property"]:
        meta["note"] = "written against %s; the breakage is observed by the %s check" % (am["property"], prop)
    json.dump(meta, open(d + 'meta.json', 'w'), indent=1)
    print('stored', sid, prop, obl)
