#!/bin/sh
# Builds the symbolic executor from files on disk only (offline). The engine's two dependencies
# (golang.org/x/tools v0.50.0 and what it needs) are vendored under engine/vendor, so the build does
# not depend on the state of the Go module cache; if the vendored build fails, the module cache is tried.
set -e
cd "$(dirname "$0")"
mkdir -p bin tmp evidence replays
cd engine
GO=/opt/veriftools/go1.26.8/bin/go
# do not depend on how the caller's environment locates the module cache
[ -n "$HOME" ] || export HOME=/root
if [ -d /root/go/pkg/mod ]; then : "${GOPATH:=/root/go}" "${GOMODCACHE:=/root/go/pkg/mod}"; export GOPATH GOMODCACHE; fi
if GOFLAGS=-mod=vendor GOPROXY=off GOSUMDB=off GOTOOLCHAIN=local $GO build -o ../bin/gosym ./cmd/gosym; then
  echo "built bin/gosym (vendored dependencies)"
else
  GOFLAGS=-mod=mod GOPROXY=off GOSUMDB=off GOTOOLCHAIN=local $GO build -o ../bin/gosym ./cmd/gosym
  echo "built bin/gosym (module cache)"
fi
