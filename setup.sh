#!/bin/sh
# Builds the symbolic executor from files on disk only (offline).
set -e
cd "$(dirname "$0")"
mkdir -p bin tmp evidence replays
cd engine
GOFLAGS=-mod=mod GOPROXY=off GOSUMDB=off GOTOOLCHAIN=local /opt/veriftools/go1.26.8/bin/go build -o ../bin/gosym ./cmd/gosym
echo "built bin/gosym"
