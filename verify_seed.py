#!/usr/bin/env python3
"""verify_seed.py <seed-dir>...: confirms in a scratch worktree that a seeded change
compiles, keeps the pinned suite green, and that its demonstration fails with it and passes without."""
import json, os, subprocess, sys, shutil
ENV = dict(os.environ, GOFLAGS='-mod=readonly', GOPROXY='off', GOTOOLCHAIN='local', PATH='/opt/veriftools/go1.26.8/bin:' + os.environ['PATH'])
BASE = json.load(open('/root/.vp/BASELINE.json'))['stable_pass']
WT = '/tmp/seedverify'

def sh(cmd, cwd, timeout=1500):
    return subprocess.run(cmd, cwd=cwd, env=ENV, stdout=subprocess.PIPE, stderr=subprocess.STDOUT, text=True, timeout=timeout)

def suite(cwd):
    p = sh(['go', 'test', '-json', '-vet=off', '-count=1', '-timeout', '25m', './...'], cwd)
    passed = set()
    for line in p.stdout.splitlines():
        try:
            e = json.loads(line)
        except Exception:
            continue
        if e.get('Action') == 'pass' and e.get('Test'):
            passed.add('%s::%s' % (e['Package'], e['Test']))
    missing = [t for t in BASE if t not in passed]
    # a test missing from a full (loaded) run gets up to three runs on its own before it counts
    # (grog/internal/worker TestRunWithConcurrentShutdown times out under load on the untouched tree too)
    still = []
    for t in missing:
        pkg, name = t.split('::', 1)
        ok = False
        for _ in range(3):
            q = sh(['go', 'test', '-vet=off', '-count=1', '-timeout', '10m', '-run', '^' + name.split('/')[0] + '$', pkg], cwd)
            if q.returncode == 0:
                ok = True
                break
        if not ok:
            still.append(t)
    return still

def main():
    subprocess.run(['git', '-C', '/repo', 'worktree', 'remove', '--force', WT], stdout=subprocess.DEVNULL, stderr=subprocess.DEVNULL)
    subprocess.check_call(['git', '-C', '/repo', 'worktree', 'add', '--detach', WT, 'HEAD', '-q'])
    try:
        for d in sys.argv[1:]:
            d = d.rstrip('/')
            name = os.path.basename(d)
            demo_rel = open(os.path.join(d, 'demo_path.txt')).read().strip()
            res = {'seed': name}
            sh(['git', 'checkout', '--', '.'], WT); sh(['git', 'clean', '-fdq'], WT)
            ap = sh(['git', 'apply', os.path.join(d, 'patch.diff')], WT)
            res['applies'] = ap.returncode == 0
            res['builds'] = sh(['go', 'build', './...'], WT).returncode == 0
            missing = suite(WT)
            res['suite_missing_with_patch'] = missing
            shutil.copy(os.path.join(d, 'zz_seed_demo_test.go'), os.path.join(WT, demo_rel))
            pkg = './' + os.path.dirname(demo_rel)
            r1 = sh(['go', 'test', '-vet=off', '-count=1', '-run', 'TestSeedDemo', pkg], WT)
            res['demo_fails_with_patch'] = r1.returncode != 0
            sh(['git', 'checkout', '--', '.'], WT)
            r2 = sh(['go', 'test', '-vet=off', '-count=1', '-run', 'TestSeedDemo', pkg], WT)
            res['demo_passes_without_patch'] = r2.returncode == 0
            os.remove(os.path.join(WT, demo_rel))
            res['ok'] = bool(res['applies'] and res['builds'] and not missing and res['demo_fails_with_patch'] and res['demo_passes_without_patch'])
            print(json.dumps(res)); sys.stdout.flush()
            json.dump(res, open(os.path.join(d, 'verified.json'), 'w'), indent=1)
    finally:
        subprocess.run(['git', '-C', '/repo', 'worktree', 'remove', '--force', WT])

main()
