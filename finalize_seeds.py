#!/usr/bin/env python3
"""finalize_seeds.py <src-dir>[=missed|=caught|=unknown] ... : copy verified + checked seeds into /verif/seeded/<id>/."""
import json, os, shutil, sys
for arg in sys.argv[1:]:
    src, _, missed = arg.partition("=")
    sid = os.path.basename(src.rstrip("/"))
    m = json.load(open(os.path.join(src, "meta.json")))
    ver = json.load(open(os.path.join(src, "verified.json")))
    chk = json.load(open(os.path.join(src, "checkrun.json")))
    caught = [(p, r) for p, r in chk.items() if r["exit"] == 1]
    if not ver.get("ok") or not caught:
        print("SKIP", sid, "verified" if ver.get("ok") else "NOT verified", "caught" if caught else "NOT caught", json.dumps(chk)[:300])
        continue
    prop, r = caught[0]
    dst = os.path.join("/verif/seeded", sid)
    os.makedirs(dst, exist_ok=True)
    for f in ("patch.diff", "zz_seed_demo_test.go", "demo_path.txt"):
        shutil.copy(os.path.join(src, f), os.path.join(dst, f))
    meta = {
        "property": m["property"],
        "breaks": m.get("summary", ""),
        "needs_to_manifest": m.get("needs", ""),
        "author": "independent sub-agent given only the property text and a scratch worktree",
        "confirmed_by_me": {"how": "python3 /verif/verify_seed.py (scratch worktree /tmp/seedverify of /repo HEAD): git apply, go build ./..., pinned suite vs BASELINE stable_pass, demo test with and without the patch", "result": ver},
        "check_run": "git -C /repo apply patch.diff; python3 /verif/check.py %s --tier quick; git -C /repo checkout -- ." % prop,
        "caught_by_property_check": prop,
        "caught_by_obligation": (r["obligations"] or ["?"])[0],
        "initially_missed": {"missed": True, "caught": False}.get(missed, None),
    }
    if prop != m["property"]:
        meta["note"] = "written against %s; the breakage is observed by the %s check" % (m["property"], prop)
    json.dump(meta, open(os.path.join(dst, "meta.json"), "w"), indent=1)
    print("stored", sid, prop, meta["caught_by_obligation"])
