#!/bin/sh
# usage: trypatch.sh <name> <patch-file> <prop>...   -- machinery testing only: applies the patch to a scratch
# worktree /tmp/wt_<name> of /repo HEAD, runs the quick checks there (VERIF_REPO/VERIF_OUT), removes the worktree.
name=$1; patch=$2; shift 2
wt=/tmp/wt_$name; out=/tmp/vout_$name
git -C /repo worktree remove --force $wt >/dev/null 2>&1
git -C /repo worktree add --detach $wt HEAD >/dev/null 2>&1 || { echo "worktree failed"; exit 3; }
git -C $wt apply "$patch" || { echo "$name: patch does not apply"; git -C /repo worktree remove --force $wt; exit 3; }
mkdir -p $out
for p in "$@"; do
  s=$(date +%s)
  VERIF_REPO=$wt VERIF_OUT=$out python3 /verif/check.py $p --tier ${TIER:-quick} > $out/$p.log 2>&1
  rc=$?
  echo "$name $p exit=$rc $(( $(date +%s) - s ))s $(grep -E '^(VIOLATION|INCONCLUSIVE|KNOWN-FINDING)' $out/$p.log | head -2 | cut -c1-260 | tr '\n' ' ')"
done
git -C /repo worktree remove --force $wt >/dev/null 2>&1
