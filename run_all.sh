#!/bin/sh
# runs every registered check (quick tier by default) sequentially; prints one line per check
tier=${1:-quick}
cd /verif
for p in $(python3 -c "import json;print(' '.join(sorted(json.load(open('checks.json')).keys())))"); do
  s=$(date +%s)
  out=$(python3 check.py $p --tier $tier 2>/dev/null | tail -3 | cut -c1-160)
  rc=$?
  e=$(date +%s)
  echo "$p $((e-s))s :: $out"
done
