#!/usr/bin/env python3
"""store_seeds.py <src-dir>... : run the property's quick check against each (already verified) seed and store it
under /verif/seeded/<id>/ with meta.json.  The seed's property comes from its meta.json; extra properties to try
can be given as  <src-dir>:C01,C13 ."""
import json, os, re, shutil, subprocess, sys
def run_check(patch, prop, tier):
    subprocess.run(["git","-C","/repo","apply",patch],check=True)
    try:
        p=subprocess.run(["python3","/verif/check.py",prop,"--tier",tier],capture_output=True,text=True)
    finally:
        subprocess.run(["git","-C","/repo","checkout","--","."],check=True)
    viol=[l for l in p.stdout.splitlines() if l.startswith("VIOLATION")]
    obl=sorted(set(re.findall(r" id=(\S+)",p.stdout)))
    return p.returncode, viol, obl, p.stdout
for arg in sys.argv[1:]:
    src,_,extra=arg.partition(":")
    sid=os.path.basename(src.rstrip("/"))
    m=json.load(open(os.path.join(src,"meta.json")))
    ver=json.load(open(os.path.join(src,"verified.json"))) if os.path.exists(os.path.join(src,"verified.json")) else None
    props=[m["property"]]+[x for x in extra.split(",") if x]
    res={}
    for prop in props:
        rc,viol,obl,out=run_check(os.path.join(src,"patch.diff"),prop,"quick")
        res[prop]={"exit":rc,"violations":viol[:3],"obligations":obl[:6]}
        if rc==1: break
    print(sid,json.dumps(res)[:400],flush=True)
    json.dump(res,open(os.path.join(src,"checkrun.json"),"w"),indent=1)
