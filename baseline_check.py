#!/usr/bin/env python3
"""Runs the repository's pinned test suite (guard off) and compares with BASELINE.json stable_pass."""
import json, subprocess, sys, os
b = json.load(open('/root/.vp/BASELINE.json'))
env = dict(os.environ, GOFLAGS='-mod=readonly', GOPROXY='off')
p = subprocess.run(['go', 'test', '-json', '-vet=off', '-count=1', '-timeout', '25m', './...'], cwd='/repo', env=env, stdout=subprocess.PIPE, stderr=subprocess.DEVNULL, text=True)
passed = set()
for line in p.stdout.splitlines():
    try:
        e = json.loads(line)
    except Exception:
        continue
    if e.get('Action') == 'pass' and e.get('Test'):
        passed.add('%s::%s' % (e['Package'], e['Test']))
missing = [t for t in b['stable_pass'] if t not in passed]
print('stable_pass: %d, passing now: %d, missing: %d' % (len(b['stable_pass']), len(b['stable_pass']) - len(missing), len(missing)))
for m in missing:
    print('  MISSING', m)
sys.exit(1 if missing else 0)
